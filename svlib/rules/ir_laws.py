"""C01 (structural clauses) - operation laws over IR.

What is decided: for every public member operation, on every normal-return path the engine can
follow to the end, the *element count* and the *returned position* are the ones std::vector
specifies, as a linear form over what the caller passed and the container held on entry:

R01.1  size law      size() after the call  ==  spec(op)(size before, arguments)
                     (push_back: +1, insert(pos, n, v): +n, erase(first, last): -(last-first),
                      resize(n): n, assign(n, v): n, clear: 0, copy/move: size of the source, ...)
R01.2  position law  the returned iterator/reference, taken relative to data() after the call, is
                     the spec's offset:  insert/emplace/erase return the position of `pos`/`first`
                     (rv - data_after == pos - data_before), append returns the old end,
                     emplace_back returns the new last element, operator= returns *this.
R01.3  at()          returns data()[i] on paths on which i < size() is established and raises
                     std::out_of_range on the paths on which it is refuted.

What is NOT decided: element values and their order (run-time data), and the laws of overloads
whose count is not a linear form of the arguments (single-pass ranges).

Method (compositional, no table of internal helper names): a function the engine cannot expand
(loops / large) gets an inferred *law* - its final size and its result relative to the final data
pointer as terms over its own arguments and entry state - when ALL its normal exits agree modulo
the linear equalities established on each path (rational Gaussian elimination over atoms; no
solver).  Laws are applied at call sites in callers, bottom-up, up to the public entry points,
where the result is compared with the spec table below.  Leaf loops (`for (; first != last; ++first,
++d) construct (d, *first); return d;`) are handled by co-induction variables in the engine
(sym.Engine._coind_*): variables that advance by a constant per iteration are tied to one iteration
count, the inductive step is checked on the generic iteration, and the exit test `first == last`
then determines the count.  The standard library's copy/move loops count down a signed integer;
their specified results (`std::move(f, l, d) == d + (l - f)` etc.) are the only trusted models.
"""
import re
from fractions import Fraction

from .. import sym, irrules
from ..sym import const_of, single_atom, atom, L, lin_sub, lin_add, lin_scale, subst, atoms_of
from ..irrules import Report, base_name, obj_of
from .ir_bounds import facts
from .ir_strong import split_params
from .ir_growth import is_public

THIS = ((('arg', 0), 1),)
import os
DEBUG = bool(os.environ.get('SV_LAWS_DEBUG'))


# ---------------------------------------------------------------------------------------------
# linear reasoning
# ---------------------------------------------------------------------------------------------
def clean(t):
    """Only entry atoms: arguments and the unversioned initial contents of cells addressed by them."""
    if t is None:
        return False
    for a in atoms_of(t):
        tag = a[0]
        if tag == 'arg' or tag in ('divx', 'cmp', 'not'):
            continue
        if tag == 'init' and len(a) == 2:
            continue
        return False
    return True


def path_eqs(st):
    out = []
    for (c, v) in st.conds:
        a = single_atom(c)
        if a is not None and a[0] == 'cmp' and a[1] == 'eq' and v:
            out.append(lin_sub(a[2], a[3]))
    les = set()
    for (k, x, y) in facts(st):
        if k == 'le':
            les.add((x, y))
    for (x, y) in les:
        if const_of(y) == 0:
            out.append(x)                     # unsigned x <= 0
        elif (y, x) in les:
            out.append(lin_sub(x, y))
    return out


def _vec(t):
    d = {}
    if t[1]:
        d[None] = Fraction(t[1])
    for at, c in t[2]:
        d[at] = Fraction(c)
    return d


def in_span(target, eqs):
    """Is the linear form `target` a rational combination of the forms in eqs (all known == 0)?"""
    if const_of(target) == 0:
        return True
    rows = [_vec(e) for e in eqs if const_of(e) is None]
    tv = _vec(target)
    # eliminate
    basis = []       # (pivot key, row)
    for r in rows:
        r = dict(r)
        for (pk, br) in basis:
            if pk in r:
                f = r[pk] / br[pk]
                for k, v in br.items():
                    nv = r.get(k, 0) - f * v
                    if nv == 0:
                        r.pop(k, None)
                    else:
                        r[k] = nv
        keys = [k for k in r if k is not None]
        if not keys:
            continue
        pk = sorted(keys, key=repr)[0]
        basis.append((pk, r))
    r = dict(tv)
    for (pk, br) in basis:
        if pk in r:
            f = r[pk] / br[pk]
            for k, v in br.items():
                nv = r.get(k, 0) - f * v
                if nv == 0:
                    r.pop(k, None)
                else:
                    r[k] = nv
    return not r


def reduce_by(target, eqs):
    """Use each equality that determines an argument (coefficient +-1) as a substitution, also inside
    nested atoms (exact quotients, cell addresses): `first == last` makes (last - first) / k vanish,
    `&other == this` makes other's cells this's cells."""
    eqs0 = list(eqs)
    eqs = []
    for e in eqs0:
        eqs.append(e)
        for at, c in e[2]:
            if at[0] == 'divx':
                eqs.append(lin_scale(e, at[2]))      # k * (X / k) == X for an exact quotient
    for i in range(len(eqs)):
        e = eqs[i]
        pick = None
        for at, c in e[2]:
            if c in (1, -1) and at[0] == 'arg' and (pick is None or at[1] > pick[0][1]):
                pick = (at, c)
        if pick is None:
            continue
        at, c = pick
        repl = lin_scale(lin_sub(e, ('L', 0, ((at, c),))), -c)
        if at in atoms_of(repl):
            continue

        def f(a, at=at, repl=repl):
            return repl if a == at else None
        target = subst(target, f, {})
        eqs = [subst(x, f, {}) for x in eqs]
    out = []
    for e in eqs:
        if const_of(e) is not None:
            continue
        out.append(e)
        for at, c in e[2]:
            if at[0] == 'divx':
                out.append(lin_scale(e, at[2]))      # k * (X / k) == X for an exact quotient
    return target, out


def same(a, b, eqs):
    if a is None or b is None:
        return False
    d = sym.canon_divx_sign(lin_sub(a, b))
    if const_of(d) == 0:
        return True
    d, eqs = reduce_by(d, [sym.canon_divx_sign(e) for e in eqs])
    d = sym.canon_divx_sign(d)
    if const_of(d) == 0:
        return True
    return in_span(d, [sym.canon_divx_sign(e) for e in eqs])


# ---------------------------------------------------------------------------------------------
# trusted models: results the C++ standard specifies for the library's own copy loops
# ---------------------------------------------------------------------------------------------
STD_MODELS = [
    # (regex on the demangled name of the opaque callee, index triple (first, last, dest), direction)
    (re.compile(r'^\S* ?std::__copy_move<[^>]*>::__copy_m<'), (0, 1, 2), +1),
    (re.compile(r'^\S* ?std::__copy_move_backward<[^>]*>::__copy_move_b<'), (0, 1, 2), -1),
]


class Law(object):
    """What a call of a function the engine cannot expand does to the container words of its first
    two arguments and what it returns.  `alts` is a list of cases (one when all normal exits agree):
      case = {'size': {k: term}, 'ret': ('abs', t) | ('rel', k, rho) | None, 'conds': ((cond, bool), ...)}
    `keep[k]` = field tags of object k that are unchanged on every exit."""
    __slots__ = ('name', 'cells', 'keep', 'alts', 'exits', 'why')

    def __init__(self, name):
        self.name = name
        self.cells = {}       # arg index k -> {tag: address term (callee's terms)}
        self.keep = {}
        self.alts = []
        self.exits = 0
        self.why = ''


MAX_ALTS = 12
MAX_COMBOS = 48


class Laws(object):
    """Inference and application of laws; one per engine (TU)."""

    def __init__(self, eng, cfg):
        self.eng = eng
        self.cfg = cfg
        self.orc = eng.oracle
        self.memo = {}
        self.in_progress = set()
        self.stats = {'laws': 0, 'multi_case_laws': 0, 'no_law': 0, 'restarts': 0}

    # -- inference --------------------------------------------------------------------------
    def law(self, name):
        if name in self.memo:
            return self.memo[name]
        f = self.eng.mod.funcs.get(name)
        if f is None or name in self.in_progress:
            return None
        pretty = self.orc.pretty.get(name, '') or (f.pretty or '')
        for (rx, (i0, i1, i2), sgn) in STD_MODELS:
            if rx.search(pretty) and len(f.params) >= 3:
                lw = Law(name)
                d = lin_sub(atom(('arg', i1)), atom(('arg', i0)))
                lw.alts = [{'size': {}, 'ret': ('abs', lin_add(atom(('arg', i2)), lin_scale(d, sgn))), 'conds': ()}]
                lw.why = 'standard-library model'
                self.memo[name] = lw
                return lw
        if not self.orc.is_gch(name) or not f.params or not f.blocks:
            self.memo[name] = None
            return None
        self.in_progress.add(name)
        try:
            lw = self._infer(f)
        finally:
            self.in_progress.discard(name)
        self.memo[name] = lw
        if lw is None:
            self.stats['no_law'] += 1
        else:
            self.stats['laws'] += 1
            if len(lw.alts) > 1:
                self.stats['multi_case_laws'] += 1
        return lw

    def walk(self, f, rule_factory):
        """Walk f with a fresh rule; repeat when an induction assumption is withdrawn."""
        eng = self.eng
        for _ in range(12):
            rule = rule_factory()
            old = (eng.coind, eng.precall_hook)
            eng.coind = True
            eng.precall_hook = self.precall
            try:
                eng.walk(f, [rule], path_limit=4000)
                return rule
            except sym.RestartWalk:
                self.stats['restarts'] += 1
                continue
            finally:
                eng.coind, eng.precall_hook = old
        return None

    def _infer(self, f):
        from .. import common
        try:
            rule = self.walk(f, lambda: LawRule(self, None))
        except common.AnalysisBroken:
            return None
        if rule is None or not rule.exits:
            return None
        exits = rule.exits
        lw = Law(f.name)
        lw.exits = len(exits)
        objs = []
        for k in (0, 1):
            obj = ((('arg', k), 1),)
            cells = {}
            for ex in exits:
                for tag, addr in ex['cells'].get(obj, {}).items():
                    cells[tag] = addr
            if not cells:
                continue
            lw.cells[k] = cells
            keep = set()
            for tag in (0, 1, 2):
                if tag in cells:
                    init = atom(('init', cells[tag]))
                    if all(ex['val'](cells[tag]) == init for ex in exits):
                        keep.add(tag)
            lw.keep[k] = keep
            objs.append((k, obj, cells))

        def unify(vals):
            """-> one term all exits agree on (modulo their path equalities), or None"""
            cands = []
            for v in vals:
                if clean(v) and v not in cands:
                    cands.append(v)
            # prefer the candidate that mentions the most atoms (size + count rather than size + 1)
            cands.sort(key=lambda t: (-len(t[2]), repr(t)))
            for c in cands:
                if all(same(v, c, ex['eqs']) for v, ex in zip(vals, exits)):
                    return c
            return None
        # per-exit description
        descr = []
        for ex in exits:
            d = {'size': {}, 'ret': None}
            for (k, obj, cells) in objs:
                if 2 in cells and 2 not in lw.keep[k]:
                    d['size'][k] = ex['val'](cells[2])
            rv = ex['rv']
            if rv is not None:
                if clean(rv):
                    d['ret'] = ('abs', rv)
                else:
                    for (k, obj, cells) in objs:
                        if 0 in cells:
                            rho = lin_sub(rv, ex['val'](cells[0]))
                            if clean(rho):
                                d['ret'] = ('rel', k, rho)
                                break
                    if d['ret'] is None:
                        d['ret'] = ('dirty',)
            descr.append(d)
        single = {'size': {}, 'ret': None, 'conds': ()}
        multi = False
        for (k, obj, cells) in objs:
            if 2 in cells and 2 not in lw.keep[k]:
                vals = [d['size'][k] for d in descr]
                u = unify(vals)
                if u is not None:
                    single['size'][k] = u
                elif all(clean(v) for v in vals):
                    multi = True
        if any(d['ret'] is not None for d in descr):
            rvs = [ex['rv'] for ex in exits]
            u = unify(rvs) if all(r is not None for r in rvs) else None
            if u is not None:
                single['ret'] = ('abs', u)
            else:
                for (k, obj, cells) in objs:
                    if 0 not in cells or not all(r is not None for r in rvs):
                        continue
                    rhos = [lin_sub(ex['rv'], ex['val'](cells[0])) for ex in exits]
                    u = unify(rhos)
                    if u is not None:
                        single['ret'] = ('rel', k, u)
                        break
                if single['ret'] is None and all(d['ret'] is not None and d['ret'][0] != 'dirty' for d in descr):
                    multi = True
        if not multi:
            lw.alts = [single]
        else:
            # cases: one per distinct (sizes, result) among the exits, guarded by the clean part of
            # the exit's path condition; components that do unify are shared
            seen = {}
            for d, ex in zip(descr, exits):
                alt = {'size': {}, 'ret': single['ret'], 'conds': ()}
                for k, v in d['size'].items():
                    alt['size'][k] = single['size'].get(k, v if clean(v) else None)
                    if alt['size'][k] is None:
                        del alt['size'][k]
                if alt['ret'] is None and d['ret'] is not None and d['ret'][0] != 'dirty':
                    alt['ret'] = d['ret']
                conds = tuple((c, v) for (c, v) in ex['conds'] if clean(c))
                key = (tuple(sorted(alt['size'].items())), alt['ret'])
                if key in seen:
                    # same outcome under two conditions: keep only what both establish
                    o = seen[key]
                    o['conds'] = tuple(x for x in o['conds'] if x in conds)
                else:
                    alt['conds'] = conds
                    seen[key] = alt
            lw.alts = list(seen.values())
            if len(lw.alts) > MAX_ALTS:
                return None
        useful = any(a['size'] or a['ret'] is not None for a in lw.alts) or any(lw.keep.values())
        return lw if useful else None

    # -- application ------------------------------------------------------------------------
    def precall(self, st, name, args, site):
        """Engine hook: runs before the havoc of an opaque call; the values the law needs are read
        from the state as it is at the call."""
        st.aux.pop('pend', None)
        if name is None:
            return
        lw = self.law(name)
        if lw is None:
            return
        eng = self.eng
        memo = {}

        def rep(at):
            tag = at[0]
            if tag == 'arg':
                k = at[1]
                return args[k] if k < len(args) else atom(('undef',))
            if tag == 'init' and len(at) == 2:
                return eng.load(st, subst(at[1], rep, memo))
            return None
        pend = {'site': site, 'keep': [], 'tags': [], 'alts': [], 'name': name}
        cellmap = {}
        for k, cells in lw.cells.items():
            for tag, addr in cells.items():
                a2 = subst(addr, rep, memo)
                cellmap[(k, tag)] = a2
                pend['tags'].append((a2, tag))
                if tag in lw.keep.get(k, ()):
                    pend['keep'].append((a2, eng.load(st, a2)))
        for alt in lw.alts:
            feasible = True
            conds = []
            for (c, v) in alt['conds']:
                c2 = subst(c, rep, memo)
                cv = eng.cond_value(st, c2)
                if cv is not None and cv != v:
                    feasible = False
                    break
                if cv is None:
                    conds.append((c2, v))
            if not feasible:
                continue
            a = {'stores': [], 'ret': None, 'conds': tuple(conds)}
            for k, t in alt['size'].items():
                a['stores'].append((cellmap[(k, 2)], subst(t, rep, memo)))
            r = alt['ret']
            if r is not None:
                if r[0] == 'abs':
                    a['ret'] = ('abs', subst(r[1], rep, memo))
                else:
                    a['ret'] = ('rel', cellmap[(r[1], 0)], subst(r[2], rep, memo))
            pend['alts'].append(a)
        if pend['alts']:
            st.aux['pend'] = pend


def eqs_of_conds(conds):
    out = []
    for (c, v) in conds:
        a = single_atom(c)
        if a is not None and a[0] == 'cmp' and a[1] == 'eq' and v:
            out.append(lin_sub(a[2], a[3]))
    return out


class LawRule(sym.Rule):
    """Applies callee laws at opaque calls; collects the exits of the walked function.
    Rule state: (retmap, choices): retmap = ((result atom, value), ...), choices =
    ((site, ((slot atoms...), ((values...), extra equalities) per case)), ...)."""
    name = 'R01'

    def __init__(self, laws, spec):
        self.laws = laws
        self.eng = laws.eng
        self.spec = spec
        self.exits = []

    def init(self, f, eng):
        return ((), ())

    def on_event(self, rs, ev, st, f, eng):
        if ev.kind == 'call' and ev.callee is not None and not ev.expanded:
            pend = st.aux.get('pend')
            if pend is not None and pend['site'] == ev.site:
                st.aux.pop('pend', None)
                retmap, choices = rs
                for (a, tag) in pend['tags']:
                    eng.field_tag[a] = tag
                for (a, v) in pend['keep']:
                    st.mem[a] = v
                alts = pend['alts']
                ra = single_atom(ev.ret) if ev.ret is not None else None

                def retval(r):
                    if r is None:
                        return None
                    if r[0] == 'abs':
                        return r[1]
                    return lin_add(eng.load(st, r[1]), r[2])
                if len(alts) == 1:
                    a = alts[0]
                    # the data pointer after the call is read once the size store is in place
                    for (cell, v) in a['stores']:
                        st.mem[cell] = v
                    val = retval(a['ret'])
                    if val is not None and ra is not None:
                        if ev.ins is not None and ev.ins.res and ev.fn is f and st.env.get(ev.ins.res) == ev.ret:
                            st.env[ev.ins.res] = val
                        retmap = retmap + ((ra, val),)
                    return (retmap, choices)
                # several cases: the written cells and the result become choice atoms that are
                # expanded case by case at the exits
                cells = []
                for a in alts:
                    for (cell, v) in a['stores']:
                        if cell not in cells:
                            cells.append(cell)
                slots = [atom(('choice', ev.site, j)) for j in range(len(cells) + 1)]
                olds = [eng.load(st, c) for c in cells]
                for j, c in enumerate(cells):
                    st.mem[c] = slots[j]
                cases = []
                for a in alts:
                    vals = []
                    d = dict(a['stores'])
                    for j, c in enumerate(cells):
                        vals.append(d.get(c, olds[j]))
                    rv = retval(a['ret'])
                    vals.append(rv if rv is not None else atom(('unknown-result', ev.site)))
                    cases.append((tuple(vals), tuple(eqs_of_conds(a['conds']))))
                if ra is not None:
                    if ev.ins is not None and ev.ins.res and ev.fn is f and st.env.get(ev.ins.res) == ev.ret:
                        st.env[ev.ins.res] = slots[-1]
                    retmap = retmap + ((ra, slots[-1]),)
                choices = choices + ((ev.site, tuple(single_atom(x) for x in slots), tuple(cases), pend['name']),)
                return (retmap, choices)
        return rs

    def resolve(self, t, retmap):
        if t is None or not retmap:
            return t
        m = dict(retmap)
        for _ in range(4):
            t2 = subst(t, lambda a: m.get(a), {})
            if t2 == t:
                break
            t = t2
        return t

    def on_exit(self, rs, kind, st, f, eng, rv=None):
        retmap, choices = rs
        if kind != 'ret':
            if self.spec is not None and kind == 'unwind':
                self.spec.on_unwind(self, rs, st, f, eng)
            return
        cells = {}
        for a, tag in eng.field_tag.items():
            if tag in (0, 1, 2):
                cells.setdefault(obj_of(a), {})[tag] = a
        rv0 = self.resolve(rv, retmap)
        eqs0 = [self.resolve(q, retmap) for q in path_eqs(st)]
        conds0 = st.conds
        # expand the cases of multi-case laws met on this path
        combos = [({}, [], [])]
        for (site, slots, cases, name) in choices:
            nxt = []
            for (m, extra, via) in combos:
                for ci, (vals, ceqs) in enumerate(cases):
                    m2 = dict(m)
                    for sa, v in zip(slots, vals):
                        m2[sa] = v
                    nxt.append((m2, extra + list(ceqs), via + [(name, ci, len(cases))]))
            combos = nxt
            if len(combos) > MAX_COMBOS:
                combos = None
                break
        if combos is None:
            combos = [({}, [], [('too many case combinations', 0, 0)])]
        for (m, extra, via) in combos:
            def fix(t, m=m):
                if t is None or not m:
                    return t
                for _ in range(4):
                    t2 = subst(t, lambda a: m.get(a), {})
                    if t2 == t:
                        break
                    t = t2
                return t

            def val(addr, fix=fix):
                return fix(self.resolve(eng.load(st, addr), retmap))
            ex = {'cells': cells, 'val': val, 'rv': fix(rv0), 'eqs': [fix(q) for q in eqs0] + [fix(q) for q in extra],
                  'conds': conds0, 'via': via}
            if self.spec is not None:
                self.spec.on_ret(self, ex, st, f, eng)
            else:
                self.exits.append(ex)


# ---------------------------------------------------------------------------------------------
# the specification (std::vector's, [vector.modifiers] / [vector.capacity] / [sequence.reqmts])
# ---------------------------------------------------------------------------------------------
def class_of(f):
    p = f.pretty or ''
    head = p[:p.rfind('(')] if '(' in p else p
    # text up to the last top-level '::'
    depth = 0
    cut = -1
    i = 0
    h = p
    # find the parameter list start
    close = p.rfind(')')
    d = 0
    j = close
    while j >= 0:
        if p[j] == ')':
            d += 1
        elif p[j] == '(':
            d -= 1
            if d == 0:
                break
        j -= 1
    head = p[:j]
    depth = 0
    for i in range(len(head) - 1):
        c = head[i]
        if c in '<(':
            depth += 1
        elif c in '>)':
            depth -= 1
        elif c == ':' and head[i + 1] == ':' and depth == 0:
            cut = i
    cls = head[:cut] if cut >= 0 else ''
    k = cls.find('gch::small_vector<')
    return cls[k:] if k >= 0 else cls


def param_list(f):
    p = f.pretty or ''
    close = p.rfind(')')
    d = 0
    j = close
    while j >= 0:
        if p[j] == ')':
            d += 1
        elif p[j] == '(':
            d -= 1
            if d == 0:
                break
        j -= 1
    return split_params(p[j:close + 1])


def kind_of(p, elem):
    q = p.strip()
    if q.startswith('gch::small_vector_iterator<'):
        return 'it'
    if q.startswith('std::initializer_list<'):
        return 'il'
    if q in ('unsigned long', 'unsigned int', 'unsigned char', 'unsigned short', 'unsigned long long'):
        return 'n'
    if q.startswith('gch::small_vector<') and (q.endswith('&&') or q.endswith('const&')):
        return 'other_move' if q.endswith('&&') else 'other'
    e = elem.strip()
    if q in (e + ' const&', e + '&&', e + '&'):
        return 'val'
    if q in (e + '*', e + ' const*'):
        return 'ptr'
    if q.endswith('const&') and ('PA<' in q or 'allocator<' in q):
        return 'alloc'
    return 'x'


def elem_of(cls):
    inner = cls[cls.find('<') + 1:]
    depth = 0
    out = []
    for c in inner:
        if c in '<(':
            depth += 1
        elif c in '>)':
            depth -= 1
        if c == ',' and depth == 0:
            break
        out.append(c)
    return ''.join(out)


class Spec(object):
    def __init__(self, laws, cfg, perturb=False):
        self.laws = laws
        self.cfg = cfg
        self.perturb = perturb      # negative control: a deliberately wrong specification
        self.reports = {}
        self.layouts = {}
        self.cur = None
        self.decided = 0
        self.undecided = 0
        self.undecided_ops = {}

    # -- layout of a class: cell addresses relative to `this`, stride -----------------------------
    def layout(self, cls):
        if cls in self.layouts:
            return self.layouts[cls]
        eng = self.laws.eng
        got = {}
        for f in irrules.gch_roots(eng):
            if not is_public(f) or class_of(f) != cls:
                continue
            bn = base_name(f.pretty)
            if bn not in ('size', 'data', 'capacity', 'operator[]') or len(f.params) > 2:
                continue
            if bn in got and bn != 'operator[]':
                continue
            rule = self.laws.walk(f, lambda: LawRule(self.laws, None))
            if rule is None or len(rule.exits) != 1:
                continue
            rv = rule.exits[0]['rv']
            if rv is None:
                continue
            if bn == 'operator[]':
                co = [c for at, c in rv[2] if at == ('arg', 1)]
                if len(co) == 1 and co[0] > 0:
                    got['stride'] = co[0]
            else:
                a = single_atom(rv)
                if a is not None and a[0] == 'init' and len(a) == 2:
                    got[bn] = a[1]
        lay = None
        if all(k in got for k in ('size', 'data', 'capacity', 'stride')):
            lay = {2: got['size'], 0: got['data'], 1: got['capacity'], 'stride': got['stride']}
        self.layouts[cls] = lay
        return lay

    def start(self, f):
        cls = class_of(f)
        lay = self.layout(cls)
        if lay is None:
            return False
        elem = elem_of(cls)
        ps = param_list(f)
        kinds = [kind_of(p, elem) for p in ps]
        width = sum(2 if k == 'il' else 1 for k in kinds)
        if len(f.params) != 1 + width:
            return False
        pos = []
        i = 1
        for k in kinds:
            pos.append(i)
            i += 2 if k == 'il' else 1
        self.cur = {'f': f, 'cls': cls, 'lay': lay, 'kinds': tuple(kinds), 'pos': pos, 'bn': base_name(f.pretty)}
        return self.expected() is not None

    def cell(self, tag, k=0):
        a = self.cur['lay'][tag]
        if k == 0:
            return a
        return subst(a, lambda at: atom(('arg', k)) if at == ('arg', 0) else None, {})

    def expected(self):
        """-> dict(size=term|None, other_size=term|None, ret=('rel', rho)|('abs', t)|None) or None"""
        c = self.cur
        bn, kinds, pos = c['bn'], c['kinds'], c['pos']
        s = c['lay']['stride']
        S0 = atom(('init', self.cell(2)))
        D0 = atom(('init', self.cell(0)))

        def A(i):
            return atom(('arg', pos[i]))

        def LEN(i):      # initializer_list length word
            return atom(('arg', pos[i] + 1))

        def DIST(i, j):
            d = lin_sub(A(j), A(i))
            return sym.mk_divx(d, s)

        def OS(i):
            return atom(('init', self.cell(2, pos[i])))
        rel_pos = lambda i: ('rel', lin_sub(A(i), D0))
        e = {'size': None, 'other_size': None, 'ret': None}
        ptrish = ('ptr', 'it')
        k = kinds
        if bn == 'push_back' and k == ('val',):
            e['size'] = lin_add(S0, L(1))
        elif bn == 'emplace_back':
            e['size'] = lin_add(S0, L(1))
            e['ret'] = ('rel', lin_scale(S0, s))
        elif bn == 'pop_back' and k == ():
            e['size'] = lin_sub(S0, L(1))
        elif bn == 'insert' and k and k[0] == 'it':
            e['ret'] = rel_pos(0)
            if k == ('it', 'val'):
                e['size'] = lin_add(S0, L(1))
            elif k == ('it', 'n', 'val'):
                e['size'] = lin_add(S0, A(1))
            elif k == ('it', 'il'):
                e['size'] = lin_add(S0, LEN(1))
            elif len(k) == 3 and k[1] in ptrish and k[2] in ptrish:
                e['size'] = lin_add(S0, DIST(1, 2))
        elif bn == 'emplace' and k and k[0] == 'it':
            e['ret'] = rel_pos(0)
            e['size'] = lin_add(S0, L(1))
        elif bn == 'erase' and k == ('it',):
            e['ret'] = rel_pos(0)
            e['size'] = lin_sub(S0, L(1))
        elif bn == 'erase' and k == ('it', 'it'):
            e['ret'] = rel_pos(0)
            e['size'] = lin_sub(S0, DIST(0, 1))
        elif bn == 'clear' and k == ():
            e['size'] = L(0)
        elif bn == 'resize' and k and k[0] == 'n':
            e['size'] = A(0)
        elif bn in ('assign', 'operator=', 'small_vector::small_vector', 'append'):
            ctor = bn == 'small_vector::small_vector'
            base = S0 if bn == 'append' else L(0)
            kk = k[:-1] if (k and k[-1] == 'alloc') else k
            if bn in ('operator=', 'append'):
                e['ret'] = ('abs', atom(('arg', 0)))
            if kk == () and ctor:
                e['size'] = L(0)
            elif kk in (('n',), ('n', 'val')) and bn != 'operator=':
                if kk == ('n',) and not ctor:
                    return None
                e['size'] = lin_add(base, A(0))
            elif kk == ('il',):
                e['size'] = lin_add(base, LEN(0))
            elif len(kk) == 2 and kk[0] in ptrish and kk[1] in ptrish:
                e['size'] = lin_add(base, DIST(0, 1))
            elif kk in (('other',), ('other_move',)):
                e['size'] = lin_add(base, OS(0))
                if bn == 'append' and kk == ('other_move',):
                    e['other_size'] = L(0)
            elif len(kk) == 2 and kk[0] not in ('n',):
                pass      # other iterator categories: only the result is specified linearly
            else:
                return None
        elif bn == 'swap' and k == ('other',) or bn == 'swap' and len(k) == 1 and 'gch::small_vector<' in param_list(c['f'])[0]:
            e['size'] = atom(('init', self.cell(2, 1)))
            e['other_size'] = S0
        elif bn == 'at' and k == ('n',):
            e['at'] = True
        else:
            return None
        if self.perturb:
            if e.get('at'):
                return None
            if e['size'] is not None:
                e['size'] = lin_add(e['size'], L(1))
            if e['other_size'] is not None:
                e['other_size'] = lin_add(e['other_size'], L(1))
            if e['ret'] is not None:
                e['ret'] = (e['ret'][0], lin_add(e['ret'][1], L(s)))
        return e

    # -- verdicts -------------------------------------------------------------------------------
    def rep(self, rule, ok, what, detail=None):
        c = self.cur
        f = c['f']
        dk = (rule, f.name, what if not ok else '', ok)
        if dk in self.reports:
            return
        bn = c['bn']
        sig = '%s(%s)' % (bn, ', '.join(c['kinds']))
        if ok:
            self.reports[dk] = Report(rule, True, None, sample={'operation': sig, 'config': self.cfg.name, 'law': what})
        else:
            d = {'function': f.pretty[:300], 'function_line': f.src_line, 'config': self.cfg.name,
                 'file': 'source/include/gch/small_vector.hpp'}
            d.update(detail or {})
            self.reports[dk] = Report(rule, False, {'operation': sig, 'defect': what},
                                      '%s: %s: %s (%s)' % (rule, sig, what, self.cfg.name), d)

    def via(self, ex):
        orc = self.laws.orc
        out = []
        for (nm, ci, n) in ex.get('via', []):
            fn = self.laws.eng.mod.funcs.get(nm)
            out.append('case %d of %d of %s (small_vector.hpp:%s)' % (ci + 1, n, base_name(orc.pretty.get(nm, nm)),
                                                                   fn.src_line if fn is not None else '?'))
        return out

    def on_unwind(self, lr, rs, st, f, eng):
        e = self.expected()
        if e and e.get('at'):
            # the throwing exit of at(): i < size refuted on the path
            S0 = atom(('init', self.cell(2)))
            i = atom(('arg', 1))
            fs = facts(st)
            if any(k == 'le' and x == S0 and y == i for (k, x, y) in fs):
                self.rep('R01.3', True, 'at() raises only where i < size() is refuted')
            else:
                self.rep('R01.3', False, 'at() raises on a path on which `size() <= i` is not established')

    def on_ret(self, lr, ex, st, f, eng):
        e = self.expected()
        c = self.cur
        eqs = ex['eqs']
        D0 = atom(('init', self.cell(0)))
        if e.get('at'):
            S0 = atom(('init', self.cell(2)))
            i = atom(('arg', 1))
            fs = facts(st)
            if not any(k == 'lt' and x == i and y == S0 for (k, x, y) in fs):
                self.rep('R01.3', False, 'at() returns on a path on which `i < size()` is not established')
            elif not same(ex['rv'], lin_add(D0, lin_scale(i, c['lay']['stride'])), eqs):
                self.rep('R01.3', False, 'at(i) does not return data()[i]', {'returned': repr(ex['rv'])[:300]})
            else:
                self.rep('R01.3', True, 'at(i) returns data()[i] where i < size() holds')
            return

        dirty = False
        if e['size'] is not None:
            got = ex['val'](self.cell(2))
            if not clean(got):
                dirty = True
            elif same(got, e['size'], eqs):
                self.rep('R01.1', True, 'size law')
                self.decided += 1
            else:
                self.rep('R01.1', False, 'size() after the call is not what std::vector specifies on some path',
                         {'size_after': show(got, c), 'specified': show(e['size'], c),
                          'path_equalities': [show(q, c) for q in eqs][:6], 'through': self.via(ex)})
                self.decided += 1
        if e['other_size'] is not None:
            got = ex['val'](self.cell(2, 1))
            if not clean(got):
                dirty = True
            elif same(got, e['other_size'], eqs):
                self.rep('R01.1', True, 'size law (argument container)')
                self.decided += 1
            else:
                self.rep('R01.1', False, 'size() of the argument container after the call is not the specified one',
                         {'size_after': show(got, c), 'specified': show(e['other_size'], c)})
                self.decided += 1
        if e['ret'] is not None and ex['rv'] is not None:
            if e['ret'][0] == 'abs':
                got, want = ex['rv'], e['ret'][1]
            else:
                d1 = ex['val'](self.cell(0))
                got, want = lin_sub(ex['rv'], d1), e['ret'][1]
            if not clean(got):
                dirty = True
            elif same(got, want, eqs):
                self.rep('R01.2', True, 'position law')
                self.decided += 1
            else:
                self.rep('R01.2', False, 'the returned position is not the one std::vector specifies on some path',
                         {'returned_minus_data_after' if e['ret'][0] == 'rel' else 'returned': show(got, c),
                          'specified': show(want, c), 'path_equalities': [show(q, c) for q in eqs][:6],
                          'through': self.via(ex)})
                self.decided += 1
        if dirty:
            self.undecided += 1
            sig = '%s(%s)' % (c['bn'], ', '.join(c['kinds']))
            self.undecided_ops[sig] = self.undecided_ops.get(sig, 0) + 1
            if DEBUG:
                print('DIRTY', sig, 'size', show(ex['val'](self.cell(2)), c), 'rv', show(ex['rv'], c))


def show(t, c):
    """Readable rendering of a term in the vocabulary of the operation."""
    if t is None:
        return 'unknown'
    lay = c['lay']
    names = {atom(('init', lay[2]))[2][0][0]: 'size0', atom(('init', lay[0]))[2][0][0]: 'data0',
             atom(('init', lay[1]))[2][0][0]: 'capacity0'}

    def at_s(a):
        if a in names:
            return names[a]
        if a[0] == 'arg':
            return 'arg%d' % a[1]
        if a[0] == 'divx':
            return '(%s)/%d' % (lin_s(a[1]), a[2])
        if a[0] == 'init' and len(a) == 2:
            return '*(%s)' % lin_s(a[1])
        if a[0] == 'cmp':
            return '(%s %s %s)' % (lin_s(a[2]), a[1], lin_s(a[3]))
        if a[0] == 'ret':
            return 'result-of-call'
        return re.sub(r"'_Z[^']*'", "'fn'", repr(a))[:80]

    def lin_s(t):
        if not sym.is_lin(t):
            return repr(t)[:80]
        parts = []
        for a, co in t[2]:
            x = at_s(a)
            if co == 1:
                parts.append('+ ' + x)
            elif co == -1:
                parts.append('- ' + x)
            else:
                parts.append('%s %d*%s' % ('+' if co > 0 else '-', abs(co), x))
        if t[1] or not parts:
            parts.append('%s %d' % ('+' if t[1] >= 0 else '-', abs(t[1])))
        r = ' '.join(parts)
        return r[2:] if r.startswith('+ ') else r
    return lin_s(t)[:400]


def analyse_tu(eng, cfg):
    laws = Laws(eng, cfg)
    spec = Spec(laws, cfg)
    n = 0
    ops = set()
    for f in irrules.gch_roots(eng):
        if not is_public(f):
            continue
        if not spec.start(f):
            continue
        n += 1
        ops.add('%s(%s)' % (spec.cur['bn'], ', '.join(spec.cur['kinds'])))
        laws.walk(f, lambda: LawRule(laws, spec))
    control = None
    if cfg.elem == 'NM' and cfg.std == 'c++17' and not cfg.defines and cfg.sizet == 'u64':
        # negative control on every run: against a specification that is off by one everywhere
        # (size + 1, position + one element) every decided verdict must be a violation
        wrong = Spec(laws, cfg, perturb=True)
        for f in irrules.gch_roots(eng):
            if is_public(f) and wrong.start(f):
                laws.walk(f, lambda: LawRule(laws, wrong))
        flagged = set((r.rule, r.key['operation']) for r in wrong.reports.values() if not r.ok)
        passed = set((r.rule, r.sample['operation']) for r in wrong.reports.values() if r.ok)
        control = {'flagged': len(flagged), 'wrongly_passed': sorted(passed - flagged)[:10], 'passed_somewhere': len(passed)}
    return {'reports': list(spec.reports.values()), 'functions': n, 'decided': spec.decided, 'control': control,
            'undecided_paths': spec.undecided, 'undecided_ops': spec.undecided_ops,
            'operations': sorted(ops), 'laws': laws.stats,
            'law_functions': sorted(base_name(eng.oracle.pretty.get(k, k)) for k, v in laws.memo.items() if v is not None)}
