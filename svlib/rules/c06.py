"""C06 — basic exception guarantee (DESIGN section 6, C06)."""
from .. import common, corpus, irrules


def run(tier):
    ck = common.Check('C06', tier)
    cfgs = corpus.corpus(tier)
    # R06.1: no block leaked on any exception edge (R04.1 restricted to exceptional exits)
    res = corpus.run_over(cfgs, 'svlib.rules.ir_alloc', 'analyse_tu')
    for r in res:
        if r['ok']:
            keep = []
            for x in r['res']['reports']:
                if (x.ok and x.sample and x.sample.get('exit') == 'unwind') or \
                        (not x.ok and x.key.get('exit') == 'unwind'):
                    x.rule = 'R06.1'
                    if not x.ok:
                        x.message = x.message.replace('R04.1', 'R06.1')
                    keep.append(x)
            r['res']['reports'] = keep
    irrules.aggregate(ck, res)
    # R06.4: catch-all handlers re-throw
    res = corpus.run_over(cfgs, 'svlib.rules.ir_noexcept', 'analyse_tu')
    for r in res:
        if r['ok']:
            r['res']['reports'] = [x for x in r['res']['reports'] if x.rule == 'R06.4']
    irrules.aggregate(ck, res)
    ck.floor('catch-all handlers examined', sum(r['res']['catch_handlers'] for r in res),
             500 if tier == 'quick' else 5000)
    # R06.5: consistent words at exceptional exits (R02.1 restricted to unwind exits)
    res = corpus.run_over(cfgs, 'svlib.rules.ir_pair', 'analyse_tu')
    for r in res:
        if r['ok']:
            keep = []
            for x in r['res']['reports']:
                if x.rule != 'R02.1':
                    continue
                if (x.ok and x.sample.get('exit') == 'unwind') or (not x.ok and x.key.get('exit') == 'unwind'):
                    x.rule = 'R06.5'
                    if not x.ok:
                        x.message = x.message.replace('R02.1', 'R06.5')
                    keep.append(x)
            r['res']['reports'] = keep
    irrules.aggregate(ck, res)
    for part in ('ir_size',):
        try:
            __import__('svlib.rules.' + part)
        except ImportError:
            ck.note('R06.3 part not available')
            continue
        res = corpus.run_over(cfgs, 'svlib.rules.' + part, 'analyse_tu')
        irrules.aggregate(ck, res)
    ck.assumptions += ['element destructors and allocator deallocate do not throw',
                       'clang 14 lowering of try/catch (landingpad, __cxa_begin_catch, __cxa_rethrow)']
    ck.finish(
        'Every exception edge of every instantiated gch:: function (invoke unwind edges, catch handlers, nested handlers): '
        'R06.1 no allocation is live-and-unowned when an exception leaves a function; R06.4 every catch-all handler '
        're-throws on every path; R06.5 the (pointer, capacity) words of every written container are consistent at '
        'exceptional exits; R06.3 size is advanced only after the elements it covers exist. Not decided: exact count of '
        'live elements inside nested roll-back handlers.')
