"""C06 — basic exception guarantee (DESIGN section 6, C06)."""
from .. import common
from . import parts


def keep(part, x):
    if part == 'ir_alloc':
        if x.rule == 'R04.5':
            return True
        ok = (x.ok and x.sample and x.sample.get('exit') in ('unwind',)) or (not x.ok and x.key.get('exit') == 'unwind')
        if ok:
            x.rule = 'R06.1'
            if not x.ok:
                x.message = x.message.replace('R04.1', 'R06.1')
        return ok
    if part == 'ir_noexcept':
        return x.rule == 'R06.4'
    if part == 'ir_pair':
        if x.rule != 'R02.1':
            return False
        ok = (x.ok and x.sample.get('exit') == 'unwind') or (not x.ok and x.key.get('exit') == 'unwind')
        if ok:
            x.rule = 'R06.5'
            if not x.ok:
                x.message = x.message.replace('R02.1', 'R06.5')
        return ok
    return True


def run(tier):
    ck = common.Check('C06', tier)
    res = parts.run_parts(ck, tier, ir_parts=('ir_alloc', 'ir_noexcept', 'ir_pair', 'ir_size', 'ir_lifetime', 'ir_ctor'),
                          rule_filter=lambda p, x: keep(p, x) and (p != 'ir_lifetime' or x.rule == 'R03.2'))
    from .. import irrules
    irrules.run_canaries(ck, {'ir_noexcept': [('R06.4', 'canary_swallow')], 'ir_size': [('R06.3', 'canary_size_first')],
                              'ir_alloc': [('R04.1', 'canary_leak_on_throw')]}, silent=('canary_ok_alloc',))
    r = res.get('ir_noexcept', [])
    ck.floor('catch-all handlers examined', sum(x['res']['catch_handlers'] for x in r if x['ok']),
             500 if tier == 'quick' else 5000)
    r = res.get('ir_size', [])
    ck.floor('size updates examined', sum(x['res']['size_updates'] for x in r if x['ok']), 1000 if tier == 'quick' else 10000)
    ck.extra['size_updates_order_only'] = sum(x['res']['order_only'] for x in r if x['ok'])
    ck.assumptions += ['element destructors and allocator deallocate do not throw',
                       'clang 14 lowering of try/catch (landingpad, __cxa_begin_catch, __cxa_rethrow)']
    ck.finish(
        'Every exception edge of every instantiated gch:: function (invoke unwind edges, catch handlers, nested handlers): '
        'R06.1 no allocation is live-and-unowned when an exception leaves a function; R06.2 construct loops destroy their partial range; '
        'R06.4 every catch-all handler re-throws on every path; R06.5 the (pointer, capacity) words of every written container are '
        'consistent at exceptional exits; R06.3 size is advanced only after a construction that starts at the old end (length agreement '
        'where both ends are closed terms, otherwise order-only) and decreased only together with the destruction of exactly the '
        'elements cut off. Not decided: exact count of live elements inside nested roll-back handlers.')
