"""E5 (README side): mechanical extraction of the declarations of the README "Brief".

The brief is the one fenced code block that defines `class small_vector`.  Nothing here matches
frozen text: the block is located by that structural property, comments are blanked, and a small scanner
walks the token stream keeping a brace stack (namespace / class scopes) and a parenthesis depth.
A *declarator* is an identifier (or `operator@`, `~name`) followed by a balanced parameter list at
parenthesis depth 0.  For every declarator the scanner records

  name, scope (tuple like ('namespace gch', 'class small_vector')), the parameter list (split at
  top-level commas; type tokens, parameter name, default argument), `const`, the exception
  specification (absent / bare `noexcept` / the balanced `noexcept (...)` clause text, verbatim),
  the `template <...>` head that precedes it (kind + name of each parameter, verbatim text), the
  leading requires-clause (parsed by the grammar of a constraint-logical-or-expression: primaries
  are parenthesised expressions or (qualified, possibly templated) names joined by && / ||) and the
  trailing requires-clause.

Alias declarations (`using X = ...;`) are recorded per scope with their right-hand side verbatim
(and a flag when the right-hand side is only a comment, as for `difference_type`).

Anything the scanner cannot balance is `common.AnalysisBroken`.
"""
import re

from . import common

KEYWORDS = {
    'noexcept', 'requires', 'decltype', 'sizeof', 'alignof', 'static_assert', 'if', 'while',
    'for', 'switch', 'return', 'template', 'typename', 'class', 'struct', 'namespace', 'using',
    'concept', 'constexpr', 'const', 'explicit', 'inline', 'static', 'friend', 'virtual',
    'operator', 'void', 'bool', 'unsigned', 'auto', 'typeid', 'throw', 'new', 'delete',
    'alignas', 'asm', 'catch', 'defined',
}

_TOKEN = re.compile(r'''
    (?P<id>[A-Za-z_][A-Za-z_0-9]*)
  | (?P<num>\d[\dA-Za-z_.']*)
  | (?P<str>"(?:[^"\\]|\\.)*"|'(?:[^'\\]|\\.)*')
  | (?P<op>->\*|<=>|<<=|>>=|\.\.\.|::|->|\+\+|--|<<|<=|>=|==|!=|&&|\|\||\+=|-=|\*=|/=|%=|&=|\|=|\^=
        |\[\[|\]\]|[{}()\[\];,<>=+\-*/%&|^!~?:.\#])
''', re.X)


class Tok:
    __slots__ = ('kind', 'text', 'pos', 'end')

    def __init__(self, kind, text, pos, end):
        self.kind, self.text, self.pos, self.end = kind, text, pos, end

    def __repr__(self):
        return 'Tok(%s,%r@%d)' % (self.kind, self.text, self.pos)


def blank_comments(text):
    """Replace comments by spaces of the same length (newlines kept) so offsets stay valid."""
    out = []
    i, n = 0, len(text)
    while i < n:
        if text.startswith('//', i):
            j = text.find('\n', i)
            j = n if j < 0 else j
            out.append(' ' * (j - i))
            i = j
        elif text.startswith('/*', i):
            j = text.find('*/', i + 2)
            if j < 0:
                raise common.AnalysisBroken('README brief: unterminated /* comment')
            out.append(''.join(c if c == '\n' else ' ' for c in text[i:j + 2]))
            i = j + 2
        elif text[i] == '"':
            j = i + 1
            while j < n and text[j] != '"' and text[j] != '\n':
                j += 2 if text[j] == '\\' else 1
            out.append(text[i:j + 1])
            i = j + 1
        else:
            out.append(text[i])
            i += 1
    return ''.join(out)


def tokenize(text, base=0):
    toks = []
    i, n = 0, len(text)
    while i < n:
        if text[i].isspace():
            i += 1
            continue
        m = _TOKEN.match(text, i)
        if not m:
            raise common.AnalysisBroken('README brief: cannot tokenise at %r' % text[i:i + 30])
        toks.append(Tok(m.lastgroup, m.group(), base + i, base + m.end()))
        i = m.end()
    return toks


class Param:
    """One function parameter: `type_tokens` (list of str), `name` (or None), `default` (text or None)."""

    def __init__(self, text, type_tokens, name, default):
        self.text, self.type_tokens, self.name, self.default = text, type_tokens, name, default

    @property
    def type(self):
        return ' '.join(self.type_tokens)

    def __repr__(self):
        return 'Param(%r, name=%r, default=%r)' % (self.type, self.name, self.default)


class Decl:
    """One function declaration of the brief."""

    def __init__(self):
        self.name = None
        self.scope = ()
        self.params = []
        self.params_text = ''
        self.const = False
        self.noexcept = None          # None (absent) | True (bare) | str (clause, verbatim)
        self.template_text = None     # verbatim `template <...>` head or None
        self.template_params = []     # [(kind, name)]  kind: 'typename' / 'unsigned' / constraint text
        self.requires_leading = None  # Constraint or None
        self.requires_trailing = None
        self.line = 0                 # 1-based line in README.md
        self.text = ''                # verbatim text of the declaration up to its exception spec

    @property
    def in_class(self):
        return bool(self.scope) and self.scope[-1].startswith(('class ', 'struct '))

    @property
    def documented(self):
        """The documented exception specification as a C++ boolean expression (verbatim clause)."""
        if self.noexcept is None:
            return 'false'
        if self.noexcept is True:
            return 'true'
        return self.noexcept

    def describe(self):
        p = ', '.join(q.text for q in self.params) or 'void'
        return '%s (%s)%s' % (self.name, p, ' const' if self.const else '')

    def __repr__(self):
        return 'Decl(%s @%d noexcept=%r)' % (self.describe(), self.line, self.noexcept)


class Constraint:
    """A requires-clause: `terms` (verbatim primaries) joined by `ops` ('&&' / '||')."""

    def __init__(self, text, terms, ops):
        self.text, self.terms, self.ops = text, terms, ops

    def __repr__(self):
        return 'Constraint(%r)' % self.text


class Alias:
    def __init__(self, name, rhs, rhs_comment, scope, line):
        self.name, self.rhs, self.rhs_comment, self.scope, self.line = name, rhs, rhs_comment, scope, line

    def __repr__(self):
        return 'Alias(%s = %r)' % (self.name, self.rhs or ('/*' + (self.rhs_comment or '') + '*/'))


class ClassInfo:
    def __init__(self, name, scope, template_text, template_params, line):
        self.name, self.scope, self.template_text = name, scope, template_text
        self.template_params, self.line = template_params, line


class Brief:
    """Parsed README brief."""

    def __init__(self, path=None):
        self.path = path or common.README
        try:
            with open(self.path, encoding='utf-8', errors='replace') as f:
                self.full = f.read()
        except OSError as e:
            raise common.AnalysisBroken('README not readable: %s' % e)
        self._locate()
        self.code = blank_comments(self.raw)
        self.toks = tokenize(self.code)
        self.decls = []
        self.aliases = []
        self.classes = []
        self._scan()

    # ---- location -----------------------------------------------------------------------------
    def _locate(self):
        """The brief is the one fenced code block that *defines* `class small_vector` (a class head
        followed by a brace), wherever the section sits and whatever its heading is called."""
        f = re.compile(r'^```[^\n]*\n(.*?)^```\s*$', re.M | re.S)
        head = re.compile(r'\bclass\s+small_vector\b[^;{}()]*\{')
        cands = []
        for fm in f.finditer(self.full):
            try:
                if head.search(blank_comments(fm.group(1))):
                    cands.append(fm)
            except common.AnalysisBroken:
                pass        # some other block (shell, cmake, ...) that is not C++
        if len(cands) != 1:
            raise common.AnalysisBroken('README: expected exactly one fenced code block defining '
                                        '`class small_vector` (the brief), found %d' % len(cands))
        self.raw = cands[0].group(1)
        self.raw_offset = cands[0].start(1)

    def line_of(self, pos):
        return self.full.count('\n', 0, self.raw_offset + pos) + 1

    # ---- balanced matching --------------------------------------------------------------------
    def _match_paren(self, i):
        """toks[i] is '('; return index of the matching ')'."""
        depth = 0
        for j in range(i, len(self.toks)):
            t = self.toks[j].text
            if t == '(':
                depth += 1
            elif t == ')':
                depth -= 1
                if depth == 0:
                    return j
        raise common.AnalysisBroken('README brief: unbalanced "(" at line %d'
                                    % self.line_of(self.toks[i].pos))

    def _match_angle(self, i):
        """toks[i] is '<' opening a template argument/parameter list; return index of its '>'.
        Parentheses inside are skipped as units; '>>' closes two levels."""
        depth = 0
        j = i
        while j < len(self.toks):
            t = self.toks[j].text
            if t == '(':
                j = self._match_paren(j)
            elif t == '<':
                depth += 1
            elif t == '>':
                depth -= 1
                if depth == 0:
                    return j, False
            elif t == '>>':
                depth -= 2
                if depth == 0:
                    return j, False
                if depth < 0:
                    return j, True       # the second '>' belongs to an enclosing list
            elif t in (';', '{', '}'):
                break
            j += 1
        raise common.AnalysisBroken('README brief: unbalanced "<" at line %d'
                                    % self.line_of(self.toks[i].pos))

    def _text(self, i, j):
        """Verbatim (comment-blanked) text of tokens i..j inclusive."""
        return self.code[self.toks[i].pos:self.toks[j].end]

    # ---- small parsers ------------------------------------------------------------------------
    def _parse_id_expression(self, i):
        """qualified name with optional template argument lists; returns index after it."""
        j = i
        if self.toks[j].text == '::':
            j += 1
        if self.toks[j].kind != 'id':
            raise common.AnalysisBroken('README brief: constraint primary not recognised at line %d: %r'
                                        % (self.line_of(self.toks[j].pos), self.toks[j].text))
        while True:
            j += 1                                        # past identifier
            if j < len(self.toks) and self.toks[j].text == '<':
                e, shared = self._match_angle(j)
                if shared:
                    raise common.AnalysisBroken('README brief: stray ">>" at line %d'
                                                % self.line_of(self.toks[j].pos))
                j = e + 1
            if j + 1 < len(self.toks) and self.toks[j].text == '::' and self.toks[j + 1].kind == 'id':
                j += 1
                continue
            return j

    def _parse_constraint(self, i):
        """toks[i] is `requires`; returns (Constraint, index after the clause)."""
        j = i + 1
        terms, ops = [], []
        while True:
            if self.toks[j].text == '(':
                e = self._match_paren(j)
                terms.append(self._text(j, e))
                j = e + 1
            else:
                e = self._parse_id_expression(j)
                terms.append(self._text(j, e - 1))
                j = e
            if j < len(self.toks) and self.toks[j].text in ('&&', '||'):
                ops.append(self.toks[j].text)
                j += 1
                continue
            break
        return Constraint(self._text(i + 1, j - 1), terms, ops), j

    def _parse_template_head(self, i):
        """toks[i] is `template`, toks[i+1] is '<'.  Returns (text, params, index after '>')."""
        e, shared = self._match_angle(i + 1)
        if shared:
            raise common.AnalysisBroken('README brief: bad template head at line %d'
                                        % self.line_of(self.toks[i].pos))
        params = []
        for a, b in self._split_commas(i + 2, e - 1):
            # drop a default argument
            eq = None
            depth = 0
            k = a
            while k <= b:
                t = self.toks[k].text
                if t == '(':
                    k = self._match_paren(k)
                elif t == '<':
                    depth += 1
                elif t == '>':
                    depth -= 1
                elif t == '>>':
                    depth -= 2
                elif t == '=' and depth == 0:
                    eq = k
                    break
                k += 1
            last = (eq - 1) if eq is not None else b
            toks = [self.toks[x] for x in range(a, last + 1)]
            pack = any(t.text == '...' for t in toks)
            ids = [t for t in toks if t.kind == 'id']
            if not ids:
                raise common.AnalysisBroken('README brief: template parameter without a name at line %d'
                                            % self.line_of(self.toks[a].pos))
            name = ids[-1].text
            kind = ' '.join(t.text for t in toks[:-1] if t.text != '...')
            params.append((kind + (' ...' if pack else ''), name))
        return self._text(i, e), params, e + 1

    def _split_commas(self, a, b):
        """Split token range a..b (inclusive) at top-level commas; yields (start, end) pairs."""
        if a > b:
            return []
        out = []
        start = a
        depth = 0
        k = a
        while k <= b:
            t = self.toks[k].text
            if t in ('(', '[', '{'):
                if t == '(':
                    k = self._match_paren(k)
                else:
                    depth += 1
            elif t in (']', '}'):
                depth -= 1
            elif t == '<':
                depth += 1
            elif t == '>':
                depth -= 1
            elif t == '>>':
                depth -= 2
            elif t == ',' and depth == 0:
                out.append((start, k - 1))
                start = k + 1
            k += 1
        out.append((start, b))
        return out

    def _parse_params(self, lp, rp):
        params = []
        if rp == lp + 1:
            return params
        if rp == lp + 2 and self.toks[lp + 1].text == 'void':
            return params
        for a, b in self._split_commas(lp + 1, rp - 1):
            eq = None
            depth = 0
            k = a
            while k <= b:
                t = self.toks[k].text
                if t == '(':
                    k = self._match_paren(k)
                elif t == '<':
                    depth += 1
                elif t == '>':
                    depth -= 1
                elif t == '>>':
                    depth -= 2
                elif t == '=' and depth == 0:
                    eq = k
                    break
                k += 1
            last = (eq - 1) if eq is not None else b
            default = self._text(eq + 1, b) if eq is not None and eq < b else None
            toks = [self.toks[x] for x in range(a, last + 1)]
            name = None
            # the last identifier names the parameter when something that can end a type precedes it
            if len(toks) >= 2 and toks[-1].kind == 'id' and toks[-1].text not in KEYWORDS \
                    and (toks[-2].kind == 'id' or toks[-2].text in ('&', '&&', '*', '>', '>>', '...')) \
                    and toks[-2].text not in ('const', 'typename', 'unsigned', 'signed', 'struct', 'class', '::'):
                name = toks[-1].text
                toks = toks[:-1]
            params.append(Param(self._text(a, b), [t.text for t in toks], name, default))
        return params

    # ---- the scanner --------------------------------------------------------------------------
    def _scan(self):
        toks = self.toks
        n = len(toks)
        scope = []            # brace stack: strings
        pend_tmpl = None      # (text, params)
        pend_req = None
        pend_scope = None     # 'namespace X' / 'class X' seen, waiting for '{'
        stmt_start = 0        # token index where the current declaration started
        i = 0
        while i < n:
            t = toks[i]
            x = t.text
            if x == '{':
                scope.append(pend_scope or '{')
                pend_scope = None
                pend_tmpl = pend_req = None
                stmt_start = i + 1
                i += 1
                continue
            if x == '}':
                if not scope:
                    raise common.AnalysisBroken('README brief: unbalanced "}" at line %d' % self.line_of(t.pos))
                scope.pop()
                pend_tmpl = pend_req = None
                stmt_start = i + 1
                i += 1
                continue
            if x == ';':
                pend_tmpl = pend_req = None
                pend_scope = None
                stmt_start = i + 1
                i += 1
                continue
            if x == '(':
                i = self._match_paren(i) + 1
                continue
            if x == '[[':
                while i < n and toks[i].text != ']]':
                    i += 1
                i += 1
                continue
            if t.kind != 'id':
                i += 1
                continue
            if x == 'namespace' and i + 1 < n and toks[i + 1].kind == 'id':
                pend_scope = 'namespace ' + toks[i + 1].text
                i += 2
                continue
            if x == 'template' and i + 1 < n and toks[i + 1].text == '<':
                if pend_tmpl is None:
                    stmt_start = i
                text, params, j = self._parse_template_head(i)
                pend_tmpl = (text, params)
                pend_req = None
                if j < n and toks[j].text == 'requires':
                    pend_req, j = self._parse_constraint(j)
                i = j
                continue
            if x in ('class', 'struct') and i + 1 < n and toks[i + 1].kind == 'id':
                # class-key name  ->  a class head when followed by '{' / ':' / ';'
                if i + 2 < n and toks[i + 2].text in ('{', ':', ';'):
                    name = toks[i + 1].text
                    if toks[i + 2].text != ';':
                        pend_scope = '%s %s' % ('class', name)
                        self.classes.append(ClassInfo(name, tuple(scope), pend_tmpl[0] if pend_tmpl else None,
                                                      pend_tmpl[1] if pend_tmpl else [], self.line_of(t.pos)))
                    i += 2
                    continue
            if x == 'using' and i + 2 < n and toks[i + 1].kind == 'id' and toks[i + 2].text == '=':
                j = i + 3
                while j < n and toks[j].text != ';':
                    if toks[j].text == '(':
                        j = self._match_paren(j)
                    j += 1
                if j >= n:
                    raise common.AnalysisBroken('README brief: alias without ";" at line %d' % self.line_of(t.pos))
                rhs = self._text(i + 3, j - 1) if j > i + 3 else ''
                rhs_comment = None
                if not rhs.strip():
                    raw = self.raw[toks[i + 2].end:toks[j].pos]
                    cm = re.search(r'/\*(.*?)\*/', raw, re.S)
                    rhs_comment = cm.group(1).strip() if cm else ''
                self.aliases.append(Alias(toks[i + 1].text, rhs.strip(), rhs_comment, tuple(scope),
                                          self.line_of(t.pos)))
                pend_tmpl = pend_req = None
                stmt_start = j + 1
                i = j + 1
                continue
            # declarator?  name ( ... )
            name = None
            lp = None
            if x == 'operator':
                j = i + 1
                sym = []
                # operator() is spelled with an empty pair first
                if j + 1 < n and toks[j].text == '(' and toks[j + 1].text == ')':
                    sym = ['()']
                    j += 2
                else:
                    while j < n and toks[j].text != '(':
                        sym.append(toks[j].text)
                        j += 1
                if j < n and toks[j].text == '(':
                    name = 'operator' + ''.join(sym)
                    lp = j
            elif x not in KEYWORDS and i + 1 < n and toks[i + 1].text == '(':
                name = x
                if i > 0 and toks[i - 1].text == '~':
                    name = '~' + x
                lp = i + 1
            if name is None:
                i += 1
                continue
            rp = self._match_paren(lp)
            d = Decl()
            d.name = name
            d.scope = tuple(scope)
            d.params_text = self._text(lp, rp)
            d.params = self._parse_params(lp, rp)
            d.line = self.line_of(t.pos)
            if pend_tmpl is not None:
                d.template_text, d.template_params = pend_tmpl
            d.requires_leading = pend_req
            j = rp + 1
            if j < n and toks[j].text == 'const':
                d.const = True
                j += 1
            if j < n and toks[j].text == 'noexcept':
                if j + 1 < n and toks[j + 1].text == '(':
                    e = self._match_paren(j + 1)
                    inner = self.code[toks[j + 1].end:toks[e].pos]
                    d.noexcept = inner.strip()
                    if not d.noexcept:
                        raise common.AnalysisBroken('README brief: empty noexcept () at line %d' % d.line)
                    j = e + 1
                else:
                    d.noexcept = True
                    j += 1
            end_spec = j - 1
            if j < n and toks[j].text == '->':
                # trailing return type: up to `requires`, ';' or the next declaration's `template`
                j += 1
                while j < n and toks[j].text not in (';', 'requires', 'template', '{', '}', '[['):
                    if toks[j].text == '(':
                        j = self._match_paren(j)
                    j += 1
            if j < n and toks[j].text == 'requires':
                d.requires_trailing, j = self._parse_constraint(j)
            d.text = ' '.join(self._text(stmt_start, end_spec).split())
            self.decls.append(d)
            pend_tmpl = pend_req = None
            stmt_start = j
            i = j
        if scope:
            raise common.AnalysisBroken('README brief: unbalanced "{" (%s)' % scope[-1])

    # ---- queries ------------------------------------------------------------------------------
    def members(self, cls, name=None):
        return [d for d in self.decls if d.scope and d.scope[-1] == 'class ' + cls
                and (name is None or d.name == name)]

    def nonmembers(self, name=None, namespace='gch'):
        return [d for d in self.decls if d.scope and d.scope[-1] == 'namespace ' + namespace
                and (name is None or d.name == name)]

    def class_aliases(self, cls):
        return [a for a in self.aliases if a.scope and a.scope[-1] == 'class ' + cls]

    def class_info(self, cls):
        c = [c for c in self.classes if c.name == cls]
        if len(c) != 1:
            raise common.AnalysisBroken('README brief: expected exactly one definition of class %s, found %d'
                                        % (cls, len(c)))
        return c[0]

    def noexcept_clauses(self):
        """All declarations that carry a parenthesised `noexcept (...)` clause."""
        return [d for d in self.decls if isinstance(d.noexcept, str)]


_cache = {}


def brief(path=None):
    p = path or common.README
    if p not in _cache:
        _cache[p] = Brief(p)
    return _cache[p]
