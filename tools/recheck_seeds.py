#!/usr/bin/env python3
"""recheck_seeds.py [id ...] - re-run the checks recorded in seeded/<id>/meta.json against the seeded
change (scratch copy of /repo's sources, SV_REPO) with the machinery as it is now, and update
meta.json ("checks", "rechecked_at_verif_commit") and the "# expects:" header of patch.diff."""
import json, os, re, shutil, subprocess, sys, tempfile
VERIF = os.path.dirname(os.path.dirname(os.path.abspath(__file__)))
ids = sys.argv[1:] or sorted(os.listdir(os.path.join(VERIF, 'seeded')))
head = subprocess.run(['git', '-C', VERIF, 'rev-parse', '--short', 'HEAD'], stdout=subprocess.PIPE, text=True).stdout.strip()
for sid in ids:
    d = os.path.join(VERIF, 'seeded', sid)
    mp = os.path.join(d, 'meta.json')
    if not os.path.exists(mp):
        continue
    meta = json.load(open(mp))
    checks = list(meta.get('checks', {}).keys()) or [meta['property']]
    tmp = tempfile.mkdtemp(prefix='svre.')
    try:
        repo = os.path.join(tmp, 'repo')
        os.makedirs(repo)
        shutil.copytree('/repo/source', os.path.join(repo, 'source'))
        shutil.copy('/repo/README.md', repo)
        body = ''.join(l for l in open(os.path.join(d, 'patch.diff')) if not l.startswith('# expects:'))
        open(os.path.join(tmp, 'p.diff'), 'w').write(body)
        p = subprocess.run(['git', 'apply', os.path.join(tmp, 'p.diff')], cwd=repo, stdout=subprocess.PIPE, stderr=subprocess.STDOUT, text=True)
        if p.returncode:
            print(sid, 'PATCH DOES NOT APPLY', p.stdout[-200:])
            continue
        env = dict(os.environ, SV_REPO=repo, SV_EVIDENCE=os.path.join(tmp, 'ev'), SV_OUT=os.path.join(tmp, 'out'))
        verdicts = {}
        for c in checks:
            q = subprocess.run([os.path.join(VERIF, 'bin/svcheck'), c, '--tier', 'quick'], cwd=VERIF, env=env,
                               stdout=subprocess.PIPE, stderr=subprocess.STDOUT, text=True)
            msgs = [l.strip() for l in q.stdout.splitlines() if l.startswith('  ') and not l.startswith('   ')][:3]
            verdicts[c] = {'exit': q.returncode, 'caught': q.returncode == 1 and 'VIOLATION property=%s' % c in q.stdout,
                           'reports': [m[:400] for m in msgs]}
        meta['checks'] = verdicts
        meta['rechecked_at_verif_commit'] = head
        json.dump(meta, open(mp, 'w'), indent=1)
        with open(os.path.join(d, 'patch.diff'), 'w') as f:
            for c, v in verdicts.items():
                if v['caught']:
                    f.write('# expects: %s\n' % c)
            f.write(body)
        print(sid, {c: v['caught'] for c, v in verdicts.items()})
    finally:
        shutil.rmtree(tmp, ignore_errors=True)
