#!/usr/bin/env python3
"""confirm_seed.py <seed-dir> <ID> <PROPERTY> [--checks C05,C04]

Confirms a seeded change independently and files it under /verif/seeded/<ID>/:
  1. fresh scratch git worktree of /repo (outside /repo and /verif), patch applied with git apply;
  2. the complete existing test suite is built and run there (must be 575/575);
  3. demo.cpp is built and run against the changed header (must fail) and the clean header (must pass);
  4. the named checks are run against the changed sources (SV_REPO) and their verdicts recorded.
The worktree and its build output are removed afterwards.  Nothing is committed to /repo.
"""
import argparse
import json
import os
import re
import shutil
import subprocess
import sys
import time

VERIF = os.path.dirname(os.path.dirname(os.path.abspath(__file__)))


def sh(cmd, cwd=None, timeout=7200, env=None):
    p = subprocess.run(cmd, shell=True, cwd=cwd, stdout=subprocess.PIPE, stderr=subprocess.STDOUT, text=True,
                       timeout=timeout, env=env)
    return p.returncode, p.stdout


def main():
    ap = argparse.ArgumentParser()
    ap.add_argument('seed_dir')
    ap.add_argument('id')
    ap.add_argument('prop')
    ap.add_argument('--checks', default=None)
    ap.add_argument('--jobs', default='8')
    ap.add_argument('--skip-suite', action='store_true')
    a = ap.parse_args()
    src = os.path.abspath(a.seed_dir)
    wt = '/tmp/confirm/' + a.id
    os.makedirs('/tmp/confirm', exist_ok=True)
    sh('git -C /repo worktree remove --force %s' % wt)
    rc, out = sh('git -C /repo worktree add --detach %s HEAD' % wt)
    if rc:
        sys.exit('worktree: ' + out)
    meta = {'id': a.id, 'property': a.prop, 'source': 'independent sub-agent given only the property text and a scratch worktree',
            'base_commit': sh('git -C /repo rev-parse HEAD')[1].strip(), 'ran': []}
    try:
        rc, out = sh('git apply %s' % os.path.join(src, 'patch.diff'), cwd=wt)
        meta['patch_applies'] = rc == 0
        if rc:
            meta['error'] = out[-500:]
            raise SystemExit
        # demo: with and without
        demo = os.path.join(src, 'demo.cpp')
        demosh = os.path.join(src, 'demo.sh')
        if os.path.exists(demosh):
            # a driver script (several standards / a debugger session): it takes the tree to test as WT
            res = {}
            for label, root in (('changed', wt), ('clean', '/repo')):
                rc2, out2 = sh('WT=%s sh %s %s' % (root, demosh, root), timeout=1800)
                res[label] = {'build': 'ok', 'exit': rc2, 'output_tail': out2[-400:]}
            meta['demo'] = res
            meta['ran'].append('WT=<tree> sh demo.sh <tree>  (changed tree, then /repo)')
            meta['demo_fails_with_change'] = res['changed']['exit'] != 0
            meta['demo_passes_without'] = res['clean']['exit'] == 0
            demo = None
        head = open(demo, errors='replace').read(3000) if demo else ''
        std = re.search(r'-std=(c\+\+\w+)', head)
        std = std.group(1) if std else 'c++17'
        extra = '-DNDEBUG' if '-DNDEBUG' in head else ''
        res = {}
        for label, inc in ((('changed', os.path.join(wt, 'source/include')), ('clean', '/repo/source/include')) if demo else ()):
            exe = '/tmp/confirm/%s_demo_%s' % (a.id, label)
            rc, out = sh('g++ -std=%s -O1 %s -I %s %s -o %s' % (std, extra, inc, demo, exe))
            if rc:
                res[label] = {'build': 'FAILED', 'output': out[-400:]}
                continue
            rc2, out2 = sh('%s' % exe, timeout=300)
            res[label] = {'build': 'ok', 'exit': rc2, 'output_tail': out2[-300:]}
            os.remove(exe)
        if demo:
            meta['demo'] = res
            meta['ran'].append('g++ -std=%s -O1 %s -I <include> demo.cpp && ./demo  (changed header, then clean header)' % (std, extra))
            meta['demo_fails_with_change'] = res.get('changed', {}).get('exit', 0) != 0 or res.get('changed', {}).get('build') == 'FAILED'
            meta['demo_passes_without'] = res.get('clean', {}).get('exit', 1) == 0
        # the existing suite
        if not a.skip_suite:
            t = time.time()
            b = os.path.join(wt, '_build')
            rc, out = sh('cmake -G Ninja -S %s -B %s -DCMAKE_BUILD_TYPE=RelWithDebInfo -DCMAKE_CXX_FLAGS=-Wno-error '
                         '-DGCH_SMALL_VECTOR_ENABLE_BENCHMARKS=OFF' % (wt, b))
            rc, out = sh('nice -n 10 cmake --build %s -j %s' % (b, a.jobs))
            meta['suite_builds'] = rc == 0
            if rc:
                meta['suite_build_tail'] = out[-600:]
            rc, out = sh('ctest --test-dir %s -j %s --timeout 900' % (b, a.jobs))
            m = re.search(r'(\d+)% tests passed, (\d+) tests failed out of (\d+)', out)
            meta['suite'] = m.group(0) if m else out[-300:]
            meta['suite_passes'] = bool(m and m.group(2) == '0' and m.group(3) == '575')
            meta['suite_wall_s'] = round(time.time() - t)
            meta['ran'].append('cmake -G Ninja ... -DGCH_SMALL_VECTOR_ENABLE_BENCHMARKS=OFF; cmake --build; ctest -j%s (in a scratch worktree with the patch applied)' % a.jobs)
        # the checks
        checks = (a.checks or a.prop).split(',')
        env = dict(os.environ, SV_REPO=wt, SV_EVIDENCE='/tmp/confirm/%s_ev' % a.id, SV_OUT='/tmp/confirm/%s_out' % a.id)
        verdicts = {}
        for c in checks:
            rc, out = sh('%s/bin/svcheck %s --tier quick' % (VERIF, c), cwd=VERIF, env=env)
            msgs = [l.strip() for l in out.splitlines() if l.startswith('  ') and not l.startswith('   ')][:3]
            verdicts[c] = {'exit': rc, 'caught': rc == 1 and 'VIOLATION property=%s' % c in out, 'reports': [m[:400] for m in msgs]}
            meta['ran'].append('SV_REPO=<worktree> bin/svcheck %s --tier quick' % c)
        meta['checks'] = verdicts
        shutil.rmtree('/tmp/confirm/%s_ev' % a.id, ignore_errors=True)
        shutil.rmtree('/tmp/confirm/%s_out' % a.id, ignore_errors=True)
    except SystemExit:
        pass
    finally:
        sh('git -C /repo worktree remove --force %s' % wt)
        shutil.rmtree(wt, ignore_errors=True)
    notes = os.path.join(src, 'notes.md')
    if os.path.exists(notes):
        txt = open(notes, errors='replace').read()
        meta['needs_to_manifest'] = txt[:2500]
    keep = meta.get('patch_applies') and meta.get('demo_fails_with_change') and meta.get('demo_passes_without') \
        and (a.skip_suite or meta.get('suite_passes'))
    meta['kept'] = bool(keep)
    dst = os.path.join(VERIF, 'seeded', a.id)
    if keep:
        os.makedirs(dst, exist_ok=True)
        shutil.copy(os.path.join(src, 'patch.diff'), dst)
        for fn in ('demo.cpp', 'demo.sh'):
            if os.path.exists(os.path.join(src, fn)):
                shutil.copy(os.path.join(src, fn), dst)
        if os.path.exists(notes):
            shutil.copy(notes, dst)
        # selftest header for the patch
        caught = [c for c, v in meta.get('checks', {}).items() if v['caught']]
        with open(os.path.join(dst, 'patch.diff')) as f:
            body = f.read()
        with open(os.path.join(dst, 'patch.diff'), 'w') as f:
            for c in caught:
                f.write('# expects: %s\n' % c)
            f.write(body)
        with open(os.path.join(dst, 'meta.json'), 'w') as f:
            json.dump(meta, f, indent=1)
    print(json.dumps({k: meta.get(k) for k in ('id', 'kept', 'patch_applies', 'demo_fails_with_change', 'demo_passes_without',
                                                'suite', 'suite_passes')}), {c: v['caught'] for c, v in meta.get('checks', {}).items()})


if __name__ == '__main__':
    main()
