#!/usr/bin/env python3
"""mkmutant.py NAME 'C04 text' ['C06 text' ...] < spec  — spec on stdin: OLD\n=====\nNEW (exact,
unique replacement in the header).  Writes mutants/NAME.patch (unified diff, -p1)."""
import difflib
import os
import sys
VERIF = os.path.dirname(os.path.dirname(os.path.abspath(__file__)))
REL = 'source/include/gch/small_vector.hpp'
name = sys.argv[1]
exps = sys.argv[2:]
spec = sys.stdin.read()
parts = spec.split('\n=====\n')
src = open(os.path.join(os.environ.get('SV_REPO', '/repo'), REL)).read()
new = src
for i in range(0, len(parts) - 1, 2):
    old, rep = parts[i], parts[i + 1]
    if rep.endswith('\n') and not old.endswith('\n'):
        rep = rep[:-1]
    if new.count(old) != 1:
        sys.exit('old text occurs %d times: %r' % (new.count(old), old[:80]))
    new = new.replace(old, rep)
diff = ''.join(difflib.unified_diff(src.splitlines(True), new.splitlines(True), 'a/' + REL, 'b/' + REL))
with open(os.path.join(VERIF, 'mutants', name + '.patch'), 'w') as f:
    for e in exps:
        f.write('# expects: %s\n' % e)
    f.write(diff)
print('wrote mutants/%s.patch (%d lines)' % (name, diff.count('\n')))
