#!/usr/bin/env python3
"""Regenerates MANIFEST.json from the table below (single source of truth for what is claimed)."""
import json
import os

VERIF = os.path.dirname(os.path.dirname(os.path.abspath(__file__)))

# pid -> (level, technique, level text, level note, design ref)
CLAIMED = {
    'C19': ('proof', 'compile-time layout witnesses (static_assert over sizeof/alignof) under two compilers',
            'Every cell of the statement\'s finite grid (element sizeof 1..72 x alignof 1..64, allocator state 0..24 bytes, '
            'size_type 8/16/32/64 bit, plus std::allocator) is a set of static_asserts decided by the type checkers of g++ and '
            'clang++; the oracle is the C++ object model itself. Whole property, proof over the grid; cells that genuinely fail '
            'on the pinned tree are listed in known_findings.jsonl (F9).',
            'Trusts g++ 12 / clang++ 14 sizeof/alignof evaluation and the Itanium ABI; sizeof monotone in N.',
            'DESIGN.md section 6 C19'),
}

NOT_APPLICABLE = {
    'C01': 'Whole-history value equivalence with std::vector quantifies over run-time element values, positions and counts; '
           'deciding it needs execution or a solver over index arithmetic, both outside static analysis. Its shape-level '
           'clauses (accessors are data()[i], iterators span data()..data()+size()) are decided under C02/C16.',
}

PENDING = ['C02', 'C03', 'C04', 'C05', 'C06', 'C07', 'C08', 'C09', 'C10', 'C11', 'C12', 'C13', 'C14', 'C15',
           'C16', 'C17', 'C18', 'C20']


def main():
    checks = []
    for pid in sorted(CLAIMED):
        level, tech, text, note, ref = CLAIMED[pid]
        checks.append({
            'property_id': pid,
            'quick_cmd': 'bin/svcheck %s --tier quick' % pid,
            'thorough_cmd': 'bin/svcheck %s --tier thorough' % pid,
            'evidence_file': 'evidence/%s.json' % pid,
            'replay_cmd_template': 'bin/svcheck %s --explain {path}' % pid,
            'engine': 'svcheck',
            'level_claimed': {'category': level, 'text': text, 'design_ref': ref},
            'level_note': note,
            'technique': tech,
        })
    na = [{'property_id': p, 'reason': r} for p, r in sorted(NOT_APPLICABLE.items())]
    for p in PENDING:
        if p not in CLAIMED and p not in NOT_APPLICABLE:
            na.append({'property_id': p,
                       'reason': 'not claimed yet: the static rule set for this property (DESIGN.md section 6) '
                                 'is not implemented at this commit'})
    m = {
        'version': 1,
        'setup_cmd': 'make -C /verif setup',
        'hooks': {
            'guard': 'GCH_SMALL_VECTOR_VERIF',
            'enable': 'none needed: the analyses read /repo\'s header as it is (no hook exists in /repo)',
            'baseline_off_cmd': 'cmake --build /repo/_build -j16 && ctest --test-dir /repo/_build -j8 --timeout 900',
            'source_commits': [],
            'add_only': True,
        },
        'engines': [
            {'name': 'svwitness', 'path': 'svlib/witness.py', 'serves_properties': ['C19', 'C18', 'C13', 'C07', 'C16', 'C17'],
             'kind_free_text': 'compile-pass/compile-fail batteries under g++ and clang++, -fsyntax-only'},
            {'name': 'svir', 'path': 'svlib/ir.py', 'serves_properties': [],
             'kind_free_text': 'LLVM-IR path/typestate analyser over instantiated probe TUs'},
        ],
        'checks': checks,
        'not_applicable': sorted(na, key=lambda x: x['property_id']),
        'notes': 'Static analysis only; see DESIGN.md. Exit 2 (ANALYSIS-BROKEN) is used when an anchor or tool is missing.',
    }
    with open(os.path.join(VERIF, 'MANIFEST.json'), 'w') as f:
        json.dump(m, f, indent=1)
        f.write('\n')


if __name__ == '__main__':
    main()
