#!/usr/bin/env python3
"""Regenerates MANIFEST.json from the table below (single source of truth for what is claimed)."""
import json
import os

VERIF = os.path.dirname(os.path.dirname(os.path.abspath(__file__)))

# pid -> (level, technique, level text, level note, design ref)
CLAIMED = {
    'C19': ('proof', 'compile-time layout witnesses (static_assert over sizeof/alignof) under two compilers',
            'Every cell of the statement\'s finite grid (element sizeof 1..72 x alignof 1..64, allocator state 0..24 bytes, '
            'size_type 8/16/32/64 bit, plus std::allocator) is a set of static_asserts decided by the type checkers of g++ and '
            'clang++; the oracle is the C++ object model itself. Whole property, proof over the grid; cells that genuinely fail '
            'on the pinned tree are listed in known_findings.jsonl (F9).',
            'Trusts g++ 12 / clang++ 14 sizeof/alignof evaluation and the Itanium ABI; sizeof monotone in N.',
            'DESIGN.md section 6 C19'),
}

CLAIMED.update({
    'C02': ('other', 'path-sensitive typestate over LLVM IR (paired-update provenance, steal guards) + -O2 observer normal forms',
            'Structural part of the invariant: on every path of every instantiated function, including unwind edges, the (data pointer, capacity) '
            'words are written together with matching provenance, buffers are adopted only under a guard implying capacity > inline capacity, '
            'and the observers are closed forms over the three words. Behavioural clauses that need run-time ledger state are not decided.',
            'Trusts clang 14 IR lowering, the probe corpus as the set of instantiations, the header\'s asserts as entry contracts.',
            'DESIGN.md section 6 C02'),
    'C04': ('other', 'path-sensitive allocate->commit-or-release typestate over LLVM IR incl. exception edges; committed capacity of a fresh block exceeds the inline capacity (R02.7)',
            'Pairing clause per operation: every allocation is committed to a container (pointer and the same count) or released through the '
            'same allocator object with the same count on every CFG path including unwind edges and handlers; exact-once over histories is not decided.',
            'Trusts clang 14 IR lowering of exceptions; probe allocator/element operations are opaque externals; Allocator requirements.',
            'DESIGN.md section 6 C04'),
    'C06': ('other', 'exception-edge rules over LLVM IR: leak-freedom, handlers re-throw, consistent words at unwind exits',
            'Necessary structural conditions of the basic guarantee on every exception edge of every instantiated function.',
            'Trusts clang 14 IR lowering of try/catch; element destructors and deallocate do not throw.',
            'DESIGN.md section 6 C06'),
    'C18': ('other', 'README-vs-declared noexcept witnesses (two compilers) + may-throw fixpoint under terminate pads in LLVM IR',
            'Documented = declared over the statement\'s grid by static_assert; no caller-controlled exception source can reach a terminate pad; '
            'catch-all handlers re-throw.',
            'Trusts g++/clang++ noexcept evaluation; clang lowers noexcept to invoke->terminate pads; probe operations are the exception sources.',
            'DESIGN.md section 6 C18'),
    'C07': ('other', 'trap-allocator compile witnesses for trait-selected overloads (16 trait combinations) + allocator-flow rules over LLVM IR (propagation once iff the trait, allocator epoch, no select_on_container_copy_construction result installed by assignment)',
            'Structural whole: which code path is selected is decided at type level for every trait combination; must-pass-through and '
            'allocator-epoch ordering on every path in IR. Element values are not decided.',
            'Trusts g++/clang++ overload resolution and template instantiation; Allocator requirements.',
            'DESIGN.md section 6 C07'),
    'C16': ('other', 'existence/ambiguity/return-type witnesses under every standard + operator algebra over LLVM IR + observer normal forms',
            'Structural whole: overload set, operator algebra against the mathematical table, erase-remove idiom, non-member = member normal forms.',
            'Trusts the standard algorithms std::equal / lexicographical_compare(_three_way) / remove(_if).',
            'DESIGN.md section 6 C16'),
    'C08': ('other', 'clang AST plugin: constant-evaluation hygiene (reachability under is_constant_evaluated) and paired inline->heap substitution; '
                     'operation laws over the LLVM IR flavour that contains the constant-evaluation arms',
            'Two necessary structural clauses: no non-constant construct (memcpy/memmove, placement new, void* casts, reinterpret_cast, '
            'non-constexpr callee) is reachable from the public API when std::is_constant_evaluated() is true; every allocation made only '
            'under the guard is committed with the count it was allocated with, and heap_temporary releases what it allocated. '
            'R08.3: the arms taken under constant evaluation obey the same operation laws (size, returned position, element placement, copy '
            'direction) as the run-time arms, decided on IR without evaluating anything; equality of stored VALUES is not decided.',
            'Trusts clang 14 AST of the instantiated templates; std:: bodies are leaves judged by their constexpr specifier; C++20/2b with std::allocator and literal element types.',
            'DESIGN.md section 6 C08'),
    'C12': ('other', 'allocation-size provenance and guard entailment along IR paths; narrowing-conversion guard rule',
            'Every allocation request is bounded by a length_error guard (difference-constraint matching on path conditions, no solver); '
            'thrown types; no unguarded narrowing of caller-supplied lengths for narrow size_type.',
            'Trusts max_size() stability and size() <= max_size() on entry; clang IR lowering.',
            'DESIGN.md section 6 C12'),
    'C10': ('other', 'guard-commit agreement on complete IR paths of the public operations (helpers expanded), erase-family effect freedom',
            'Reallocation only with path evidence capacity < resulting size; in-place growth only with evidence it fits; erase/pop_back/clear '
            'never touch storage words or the allocator; one allocation per path.',
            'Trusts the entry invariant size <= capacity; linear-atom matching of path conditions (no solver); summary bound.',
            'DESIGN.md section 6 C10'),
    'C14': ('other', 'growth law by path-wise entailment on the committed capacity term',
            'Structural whole: committed capacity is 2 x old, a larger required size, or max_size, and covers the committed size, on every '
            'reallocating path of the growing operations.',
            'Trusts max_size() stability; complexity consequences are argued, not measured.',
            'DESIGN.md section 6 C14'),
    'C11': ('other', 'use-after-clobber typestate for lvalue element parameters over LLVM IR paths',
            'Structural whole: the aliasing argument is never read after existing elements or their storage were disturbed, on any path of the listed operations.',
            'Trusts the may-effect summaries of opaque callees (element move/assign/destroy reachability) and the raw-storage classification.',
            'DESIGN.md section 6 C11'),
    'C13': ('other', 'trait grid vs conversion oracle and twin-agreement compile batteries (two compilers, all standards); raw-copy extent rule over IR; inferred-law agreement between byte-copy and element-wise twins of the range helpers',
            'Necessary structural conditions: byte-copy traits admit only representation-preserving conversions and contiguous iterators; '
            'shortcuts add no requirement (twin agreement); converting contiguous ranges are accepted wherever the generic path is.',
            'Trusts the oracle table ([conv], Itanium ABI, self-checked platform facts) and g++/clang++ well-formedness verdicts.',
            'DESIGN.md section 6 C13'),
    'C20': ('other', 'static parsing of prettyprinter.py (ast) and natvis (xml) resolved against clang debug-info record layouts and -O2 observer normal forms',
            'Member paths and regexes used by the shipped visualisers resolve, in every instantiation of the corpus, to the same field '
            'offsets/widths that size(), capacity(), data() and iterator dereference load; natvis conditions match inlined(). The text GDB prints is not decided.',
            'Trusts GDB\'s documented Value/Type lookup semantics, clang DWARF, LLVM -O2 as normaliser.',
            'DESIGN.md section 6 C20'),
    'C05': ('other', 'mutation-before-throw typestate on complete IR paths of the listed operations; relocation-by-move reachability for throwing-move elements',
            'Necessary and (for value preservation) sufficient structural condition: nothing observable is mutated before the last call that can throw, '
            'and relocation copies when the move may throw; leak-freedom on unwind exits.',
            'Trusts may-throw/may-effect summaries of opaque callees, path slicing by seeding pos == end().',
            'DESIGN.md section 6 C05'),
    'C09': ('other', 'steal-path effect freedom, steal-whenever-permitted evidence and source reset over LLVM IR paths',
            'Structural content of the statement on every path of the move/swap mechanisms; value preservation follows from "pointer copied, nothing touched".',
            'Trusts may-effect summaries of opaque callees; steal classification shared with C02 (R02.1).',
            'DESIGN.md section 6 C09'),
    'C15': ('other', 'iterator typestate over LLVM IR paths with an opaque input iterator; structural generator-loop rule; returned-position law for the iterator overloads',
            'Each position of a single-pass range is end-checked, read once and incremented once on every path; stale copies are never used; '
            'the generator is called exactly once per iteration up to begin + count.',
            'Trusts loop exploration by typestate repetition; the probe iterator as the model of every input iterator.',
            'DESIGN.md section 6 C15'),
    'C03': ('other', 'who-may-construct/destroy call-graph rule, self-cleaning loop rule, destroy-before-release and size-ordering typestates over LLVM IR; '
                     'exact lifetime ledger on normal paths from inferred element range effects',
            'Necessary structural conditions of lifetime conservation on every path; on normal-return paths of the public modifiers an exact ledger: '
            'assign where elements live, construct where none do, destroy exactly what leaves the sequence (R03.7). Once-ness over whole histories is not decided.',
            'Trusts the probe element types as the model of non-trivial elements; may-effect summaries.',
            'DESIGN.md section 6 C03'),
    'C17': ('other', 'corpus well-formedness under every standard and both compilers; cross-standard agreement of per-function static fingerprints; path rules, operation laws and operator algebra per standard',
            'Necessary conditions only: every probe TU compiles under c++11..2b (+GCH_DISABLE_CONCEPTS); each header function has the same reachable-primitive / '
            'escaping-exception / word-writing / non-throwing fingerprint under every standard; a selection of path rules per standard. Histories are not replayed.',
            'Trusts demangled-signature matching across standards; clang++ c++2b built with -U__cpp_if_consteval.',
            'DESIGN.md section 6 C17'),
})

CLAIMED.update({
    'C01': ('other', 'operation laws over LLVM IR: inferred size/result/element-range-effect laws of internal helpers (exits merged '
                     'modulo path equalities; loops generalised by checked induction variables) composed up to the public operations '
                     'and compared with std::vector\'s specified count, returned position and element placement',
            'Structural clauses only. Decided on every normal-return path of every public modifier, constructor and assignment in '
            'every corpus configuration: size() after the call is std::vector\'s specified count (R01.1), the returned '
            'iterator/reference is the specified position relative to data() after the call (R01.2), at() returns data()[i] exactly '
            'where i < size() is established and raises where it is refuted (R01.3), and the element operations on the path tile the '
            'resulting sequence from exactly the sources std::vector specifies - kept prefix, inserted values/range in order, suffix '
            'shifted by the inserted or erased count, safe copy direction, no read after overwrite (R01.4; element types with opaque '
            'special members). Whole histories are not replayed and stored VALUES are not computed: that part of the property is outside '
            'static analysis.',
            'Trusts clang 14 IR lowering; the standard library\'s copy loops return what the standard specifies; pointer differences '
            'within one array are exact multiples of the element size; the probe corpus as the set of instantiations.',
            'DESIGN.md section 10.8'),
})

NOT_APPLICABLE = {
}

PENDING = ['C01', 'C02', 'C03', 'C04', 'C05', 'C06', 'C07', 'C08', 'C09', 'C10', 'C11', 'C12', 'C13', 'C14', 'C15',
           'C16', 'C17', 'C18', 'C20']


def main():
    checks = []
    for pid in sorted(CLAIMED):
        level, tech, text, note, ref = CLAIMED[pid]
        checks.append({
            'property_id': pid,
            'quick_cmd': 'bin/svcheck %s --tier quick' % pid,
            'thorough_cmd': 'bin/svcheck %s --tier thorough' % pid,
            'evidence_file': 'evidence/%s.json' % pid,
            'replay_cmd_template': 'bin/svcheck %s --explain {path}' % pid,
            'engine': 'svcheck',
            'level_claimed': {'category': level, 'text': text, 'design_ref': ref},
            'level_note': note,
            'technique': tech,
        })
    na = [{'property_id': p, 'reason': r} for p, r in sorted(NOT_APPLICABLE.items())]
    for p in PENDING:
        if p not in CLAIMED and p not in NOT_APPLICABLE:
            na.append({'property_id': p,
                       'reason': 'not claimed yet: the static rule set for this property (DESIGN.md section 6) '
                                 'is not implemented at this commit'})
    m = {
        'version': 1,
        'setup_cmd': 'make -C /verif setup',
        'hooks': {
            'guard': 'GCH_SMALL_VECTOR_VERIF',
            'enable': 'none needed: the analyses read /repo\'s header as it is (no hook exists in /repo)',
            'baseline_off_cmd': 'cmake --build /repo/_build -j16 && ctest --test-dir /repo/_build -j8 --timeout 900',
            'source_commits': [],
            'add_only': True,
        },
        'engines': [
            {'name': 'svwitness', 'path': 'svlib/witness.py', 'serves_properties': ['C19', 'C18', 'C13', 'C07', 'C16', 'C17'],
             'kind_free_text': 'compile-pass/compile-fail batteries under g++ and clang++, -fsyntax-only'},
            {'name': 'svnorm', 'path': 'svlib/norm.py', 'serves_properties': ['C02', 'C16', 'C20'],
             'kind_free_text': 'observer normal forms: -O2 LLVM IR of loop-free observers reduced to expressions over the three data words'},
            {'name': 'svartifact', 'path': 'svlib/artifact.py', 'serves_properties': ['C20', 'C18'],
             'kind_free_text': 'parsers for README brief, GDB pretty-printer (python ast) and natvis (xml)'},
            {'name': 'svconst', 'path': 'plugin/svconst.cc', 'serves_properties': ['C08'],
             'kind_free_text': 'clang 14 AST plugin: reachability under std::is_constant_evaluated() over instantiated templates'},
            {'name': 'svir', 'path': 'svlib/sym.py', 'serves_properties': ['C01', 'C02', 'C03', 'C04', 'C05', 'C06', 'C07', 'C09', 'C10', 'C11', 'C12', 'C13', 'C14', 'C15', 'C16', 'C17', 'C18'],
             'kind_free_text': 'LLVM-IR path/typestate analyser over instantiated probe TUs'},
        ],
        'checks': checks,
        'not_applicable': sorted(na, key=lambda x: x['property_id']),
        'notes': 'Static analysis only; see DESIGN.md. Exit 2 (ANALYSIS-BROKEN) is used when an anchor or tool is missing.',
    }
    with open(os.path.join(VERIF, 'MANIFEST.json'), 'w') as f:
        json.dump(m, f, indent=1)
        f.write('\n')


if __name__ == '__main__':
    main()
