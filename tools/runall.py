#!/usr/bin/env python3
"""Run every check registered in MANIFEST.json (quick or thorough) and print one line each."""
import json, os, subprocess, sys, time
VERIF = os.path.dirname(os.path.dirname(os.path.abspath(__file__)))
tier = sys.argv[1] if len(sys.argv) > 1 else 'quick'
only = sys.argv[2:]
m = json.load(open(os.path.join(VERIF, 'MANIFEST.json')))
bad = 0
for c in m['checks']:
    if only and c['property_id'] not in only:
        continue
    cmd = c['quick_cmd'] if tier == 'quick' else c.get('thorough_cmd', c['quick_cmd'])
    t = time.time()
    p = subprocess.run(cmd, shell=True, cwd=VERIF, stdout=subprocess.PIPE, stderr=subprocess.STDOUT, text=True)
    last = [l for l in p.stdout.splitlines() if l.startswith(c['property_id'] + ' tier=')]
    viol = [l for l in p.stdout.splitlines() if l.startswith('VIOLATION') or l.startswith('ANALYSIS-BROKEN')]
    print('%s exit=%d %5.1fs %s' % (c['property_id'], p.returncode, time.time() - t, last[-1] if last else p.stdout[-300:]))
    for v in viol[:5]:
        print('    ' + v[:300])
    if p.returncode != 0:
        bad += 1
sys.exit(1 if bad else 0)
