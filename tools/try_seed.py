#!/usr/bin/env python3
"""try_seed.py <dir-with-patch.diff> <PID> [<PID> ...]  - apply the seeded patch to a scratch copy
of /repo's sources and run the given checks (quick) against it; prints one line per check."""
import os, shutil, subprocess, sys, tempfile
VERIF = os.path.dirname(os.path.dirname(os.path.abspath(__file__)))
d = sys.argv[1]
pids = sys.argv[2:]
tmp = tempfile.mkdtemp(prefix='svseed.')
try:
    repo = os.path.join(tmp, 'repo')
    os.makedirs(repo)
    shutil.copytree('/repo/source', os.path.join(repo, 'source'))
    shutil.copy('/repo/README.md', repo)
    p = subprocess.run(['patch', '-p1', '-s', '-i', os.path.join(os.path.abspath(d), 'patch.diff')], cwd=repo,
                       stdout=subprocess.PIPE, stderr=subprocess.STDOUT, text=True)
    if p.returncode:
        print('PATCH FAILED', p.stdout[-300:]); sys.exit(2)
    env = dict(os.environ, SV_REPO=repo, SV_EVIDENCE=os.path.join(tmp, 'ev'), SV_OUT=os.path.join(tmp, 'out'))
    for pid in pids:
        q = subprocess.run([os.path.join(VERIF, 'bin/svcheck'), pid, '--tier', os.environ.get('TIER', 'quick')], cwd=VERIF, env=env,
                           stdout=subprocess.PIPE, stderr=subprocess.STDOUT, text=True)
        lines = [l for l in q.stdout.splitlines() if not l.startswith('KNOWN-FINDING')]
        msgs = [l.strip()[:260] for l in lines if l.startswith('  ')][:4]
        print('%s %s exit=%d %s' % (os.path.basename(d.rstrip('/')), pid, q.returncode, lines[-1][:120] if lines else ''))
        for m in msgs:
            print('      ' + m)
finally:
    shutil.rmtree(tmp, ignore_errors=True)
