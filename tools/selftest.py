#!/usr/bin/env python3
"""Mutant self-test: applies each mutants/*.patch (and seeded/*/patch.diff) to a scratch copy of
/repo's sources (never to /repo itself), runs the check(s) named in the patch header against the
copy (env SV_REPO) and demands a VIOLATION whose text mentions what the header says.

Patch header lines (any number):
  # expects: <PROPERTY-ID> <substring that must occur in the check's output>
Usage: tools/selftest.py [--tier quick] [--jobs N] [pattern ...]
"""
import argparse
import glob
import os
import re
import shutil
import subprocess
import sys
import tempfile
from concurrent.futures import ThreadPoolExecutor

VERIF = os.path.dirname(os.path.dirname(os.path.abspath(__file__)))
REPO = '/repo'


def expectations(patch):
    out = []
    base = os.path.basename(patch)
    mp = re.match(r'^(?:S_)?(C\d+)_', base) or re.match(r'^(C\d+)_', os.path.basename(os.path.dirname(patch)).replace('S_', ''))
    filepid = mp.group(1) if mp else None
    with open(patch, errors='replace') as f:
        for line in f:
            m = re.match(r'^#\s*expects:\s*(C\d+)\s*(.*)$', line.strip())
            if m:
                out.append((m.group(1), m.group(2).strip()))
                continue
            m = re.match(r'^#\s*silent:\s*(C\d+)', line.strip())
            if m:
                out.append((m.group(1), None))    # behaviour-preserving edit: the check must stay silent
                continue
            # headers written by the part authors: "# expects: R20.3 free text" - the property is the
            # file's prefix and the rule id must occur in the report; "# expects: SILENT ..." = silence
            m = re.match(r'^#\s*expects:\s*(SILENT|R\d+\.\d+\w*)', line.strip())
            if m and filepid:
                if m.group(1) == 'SILENT':
                    out.append((filepid, None))
                else:
                    out.append((filepid, ''))     # any violation of that property (the parts' messages carry no rule id)
    return out


def run_one(patch, tier):
    exps = expectations(patch)
    with open(patch, errors='replace') as f:
        m = re.search(r'^#\s*tier:\s*(\w+)', f.read(2000), re.M)
    if m:
        tier = m.group(1)         # a change that only the thorough corpus contains a witness for
    if not exps:
        return patch, [('?', False, 'no "# expects:" header')]
    d = tempfile.mkdtemp(prefix='svmut.', dir=os.environ.get('SV_SCRATCH', '/tmp'))
    try:
        repo = os.path.join(d, 'repo')
        os.makedirs(repo)
        shutil.copytree(os.path.join(REPO, 'source'), os.path.join(repo, 'source'))
        shutil.copy(os.path.join(REPO, 'README.md'), repo)
        p = subprocess.run(['patch', '-p1', '-s', '-i', os.path.abspath(patch)], cwd=repo,
                           stdout=subprocess.PIPE, stderr=subprocess.STDOUT, text=True)
        if p.returncode != 0:
            return patch, [('?', False, 'patch does not apply: ' + p.stdout[-300:])]
        res = []
        env = dict(os.environ)
        env['SV_REPO'] = repo
        env['SV_JOBS'] = env.get('SV_JOBS', '8')
        # each mutant run gets its own evidence/out directories so parallel runs do not collide
        env['SV_EVIDENCE'] = os.path.join(d, 'evidence')
        env['SV_OUT'] = os.path.join(d, 'out')
        for pid, text in exps:
            q = subprocess.run([os.path.join(VERIF, 'bin', 'svcheck'), pid, '--tier', tier],
                               cwd=VERIF, env=env, stdout=subprocess.PIPE, stderr=subprocess.STDOUT,
                               text=True)
            out = q.stdout
            if text is None:
                ok = q.returncode == 0 and 'VIOLATION' not in out
                res.append((pid, ok, 'exit=%d (expected silence) %s' % (q.returncode, '' if ok else out[-600:])))
                continue
            hit = q.returncode == 1 and 'VIOLATION property=%s' % pid in out
            if hit and text:
                hit = all(t.strip() in out for t in text.split('&&'))
            tail = '\n'.join(l for l in out.splitlines() if not l.startswith('KNOWN-FINDING'))[-600:]
            res.append((pid, hit, 'exit=%d %s' % (q.returncode, '' if hit else tail)))
        return patch, res
    finally:
        shutil.rmtree(d, ignore_errors=True)


def main():
    ap = argparse.ArgumentParser()
    ap.add_argument('--tier', default='quick')
    ap.add_argument('--jobs', type=int, default=2)
    ap.add_argument('patterns', nargs='*')
    a = ap.parse_args()
    patches = sorted(glob.glob(os.path.join(VERIF, 'mutants', '*.patch'))
                     + glob.glob(os.path.join(VERIF, 'seeded', '*', 'patch.diff')))
    if a.patterns:
        patches = [p for p in patches if any(x in p for x in a.patterns)]
    bad = 0
    with ThreadPoolExecutor(max_workers=a.jobs) as ex:
        for patch, res in ex.map(lambda p: run_one(p, a.tier), patches):
            for pid, ok, msg in res:
                print('%-6s %-4s %s %s' % (('CAUGHT' if ok else 'MISSED') if 'expected silence' not in msg else ('SILENT' if ok else 'NOISY'), pid,
                                           os.path.relpath(patch, VERIF), '' if ok else msg))
                if not ok:
                    bad += 1
    print('%d mutant expectation(s) missed' % bad)
    sys.exit(1 if bad else 0)


if __name__ == '__main__':
    main()
