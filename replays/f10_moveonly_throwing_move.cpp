// F10 (C17, and the element class C05 explicitly carves out): a move-only element whose move constructor
// is not noexcept cannot be relocated before C++20 with std::allocator: reserve / push_back / emplace_back /
// append instantiate the *copy* path (is_explicitly_copy_insertable is fooled by std::allocator's
// unconstrained pre-C++20 construct member) and fail on the deleted copy constructor.
//   for s in 11 14 17 20; do g++ -std=c++$s -DNDEBUG -I/repo/source/include -fsyntax-only f10_moveonly_throwing_move.cpp && echo "c++$s ok"; done
// Observed on the pinned tree (g++ 12 and clang++ 14): ill-formed as C++11/14/17, well-formed as C++20/23.
// std::vector<X> accepts X under every standard.
#include "gch/small_vector.hpp"
struct X { X(); X(X&&); X(const X&) = delete; X& operator=(X&&) = delete; X& operator=(const X&) = delete; ~X(); int v; };
void f(gch::small_vector<X, 2>& v, unsigned long n) { v.reserve(n); v.emplace_back(); v.push_back(X()); }
