// Replays (DESIGN.md §7): ./t 1 -> F1 shrink_to_fit leak + moved-from contents; ./t 2 -> F2 terminate in converting move ctor;
// ./t 3 -> F3 terminate from noexcept range-length helper.  g++ -std=c++17 -DNDEBUG -O1 -I/repo/source/include f1_f2_f3_exceptions.cpp -o t
// Replays for F1 (shrink_to_fit), F2 (converting move ctor terminate), F3 (noexcept range length)
#include "gch/small_vector.hpp"
#include <cstdio>
#include <cstdlib>
#include <new>
#include <stdexcept>
#include <exception>
static int live_blocks = 0; static bool fail_alloc = false;
template <typename T> struct CA {
  using value_type = T; CA() = default; template <typename U> CA(const CA<U>&) noexcept {}
  T* allocate(std::size_t n) { if (fail_alloc) throw std::bad_alloc(); ++live_blocks; return static_cast<T*>(::operator new(n*sizeof(T))); }
  void deallocate(T* p, std::size_t) noexcept { --live_blocks; ::operator delete(p); }
  template <typename U> bool operator==(const CA<U>&) const noexcept { return true; }
  template <typename U> bool operator!=(const CA<U>&) const noexcept { return false; }
};
static int throw_after = -1;
struct TM { int v; bool moved=false; TM(int x=0):v(x){} TM(const TM& o):v(o.v){}
  TM(TM&& o):v(o.v){ if (throw_after==0) throw std::runtime_error("move"); if (throw_after>0) --throw_after; o.moved=true; o.v=-1; }
  TM& operator=(const TM&)=default; TM& operator=(TM&& o){v=o.v;return *this;} };
struct NM { int v; NM(int x=0):v(x){} NM(const NM&)=default; NM(NM&&) noexcept=default; NM& operator=(const NM&)=default; NM& operator=(NM&&) noexcept=default; };
struct ThrowIt { using iterator_category=std::forward_iterator_tag; using value_type=int; using difference_type=std::ptrdiff_t; using pointer=const int*; using reference=const int&;
  const int* p; int* budget; const int& operator*() const {return *p;} ThrowIt& operator++(){ if (--*budget<0) throw std::runtime_error("iter"); ++p; return *this;} ThrowIt operator++(int){auto t=*this;++*this;return t;}
  bool operator==(const ThrowIt& o) const {return p==o.p;} bool operator!=(const ThrowIt& o) const {return p!=o.p;} };
int main(int argc, char** argv) {
  int which = argc>1 ? std::atoi(argv[1]) : 1;
  std::set_terminate([]{ std::puts("  -> std::terminate called"); std::_Exit(3); });
  if (which==1) {
    gch::small_vector<TM,2,CA<TM>> v; v.reserve(16); for (int i=0;i<5;++i) v.emplace_back(i);
    int before = live_blocks; throw_after = 2;
    try { v.shrink_to_fit(); std::puts("no throw"); } catch (const std::runtime_error&) {
      std::printf("F1 shrink_to_fit threw: live_blocks before=%d after=%d (leak=%d); values:", before, live_blocks, live_blocks-before);
      for (auto& e: v) std::printf(" %d", e.v); std::puts(""); }
    throw_after=-1;
  } else if (which==2) {
    gch::small_vector<NM,4,CA<NM>> src; for (int i=0;i<4;++i) src.emplace_back(i);   // inline, 4 elements
    fail_alloc = true;
    std::printf("F2 noexcept(public ctor)=%d\n", (int)noexcept(gch::small_vector<NM,2,CA<NM>>(std::move(src))));
    try { gch::small_vector<NM,2,CA<NM>> dst(std::move(src)); std::puts("constructed"); } catch (const std::bad_alloc&) { std::puts("  bad_alloc reached caller (OK)"); }
  } else if (which==3) {
    int data[5]={1,2,3,4,5}; int budget=2; ThrowIt a{data,&budget}, b{data+5,&budget};
    try { gch::small_vector<int,2> v(a,b); std::puts("constructed"); } catch (const std::runtime_error&) { std::puts("  iterator exception reached caller (OK)"); }
  }
}
