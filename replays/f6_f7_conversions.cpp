// F6/F7 (C13, C17): converting ranges through the memcpy fast paths.
//   for c in 1 2 3 4 5; do for s in 17 20; do g++ -std=c++$s -DNDEBUG -DCASE=$c -I/repo/source/include f6_f7_conversions.cpp -o t && ./t; done; done
// Observed on the pinned tree:
//   CASE 1,5 c++17: stored pointer is 4 bytes off (memcpy of Derived* into Base2* slot)         -> F6
//   CASE 1,2,4,5 c++20 and CASE 3 under every standard: does not compile (to_address (first))  -> F7
#include "gch/small_vector.hpp"
#include <vector>
#include <cstdio>
struct B1 { int a; }; struct B2 { int b; }; struct D : B1, B2 { int c; };
int main() {
#if CASE==1
  D d[2]; D* arr[2] = { &d[0], &d[1] };
  gch::small_vector<B2*, 4> dst(arr, arr + 2);
  B2* expect = static_cast<B2*>(&d[0]);
  std::printf("stored=%p expect=%p %s\n", (void*)dst[0], (void*)expect, dst[0]==expect?"OK":"WRONG");
#elif CASE==2
  int a[3] = {-1, 2, 3};
  gch::small_vector<unsigned, 4> v(a, a + 3);
  std::printf("%u\n", v[0]);
#elif CASE==3
  gch::small_vector<int, 4> s; s.push_back(-1);
  gch::small_vector<unsigned, 4> v(s.begin(), s.end());
  std::printf("%u\n", v[0]);
#elif CASE==4
  std::vector<int> s; s.push_back(-1);
  gch::small_vector<unsigned, 4> v(s.begin(), s.end());
  std::printf("%u\n", v[0]);
#elif CASE==5
  D d[2]; std::vector<D*> arr = { &d[0], &d[1] };
  gch::small_vector<B2*, 4> dst(arr.begin(), arr.end());
  B2* expect = static_cast<B2*>(&d[0]);
  std::printf("stored=%p expect=%p %s\n", (void*)dst[0], (void*)expect, dst[0]==expect?"OK":"WRONG");
#endif
}
