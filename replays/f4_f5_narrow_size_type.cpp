// F4/F5 (C12): 8-bit size_type, NDEBUG (the pinned build configuration).
//   g++ -std=c++17 -DNDEBUG -O1 -I/repo/source/include f4_f5_narrow_size_type.cpp -o t && ./t
// Observed: max_size()==63; ctor(200 elems) -> allocate(200), size 200, no length_error (F4);
//           ctor/assign/append/insert of 300 elems -> size 44/45 silently (F5).
#include "gch/small_vector.hpp"
#include <vector>
#include <cstdio>
#include <cstdint>
#include <stdexcept>
template <typename T, typename S>
struct sized_alloc {
  using value_type = T; using size_type = S; using difference_type = std::ptrdiff_t;
  using propagate_on_container_move_assignment = std::true_type; using is_always_equal = std::true_type;
  sized_alloc() = default; template <typename U> sized_alloc(const sized_alloc<U,S>&) noexcept {}
  template <typename U> struct rebind { using other = sized_alloc<U,S>; };
  T* allocate(S n) { std::printf("  allocate(%u)\n", (unsigned)n); return static_cast<T*>(::operator new(sizeof(T)*n)); }
  void deallocate(T* p, S) noexcept { ::operator delete(p); }
  template <typename U> bool operator==(const sized_alloc<U,S>&) const noexcept { return true; }
  template <typename U> bool operator!=(const sized_alloc<U,S>&) const noexcept { return false; }
};
int main() {
  using V = gch::small_vector<int, 2, sized_alloc<int, std::uint8_t>>;
  std::vector<int> big(300, 7), mid(200, 7);
  { V v; std::printf("max_size=%u\n", (unsigned)v.max_size()); }
  try { V v(mid.begin(), mid.end()); std::printf("ctor(200): size=%u cap=%u -> NO length_error\n", (unsigned)v.size(), (unsigned)v.capacity()); } catch (const std::length_error&) { std::puts("ctor(200): length_error OK"); }
  try { V v(big.begin(), big.end()); std::printf("ctor(300): size=%u -> NO length_error (truncated)\n", (unsigned)v.size()); } catch (const std::length_error&) { std::puts("ctor(300): length_error OK"); }
  try { V v; v.assign(big.begin(), big.end()); std::printf("assign(300): size=%u -> NO length_error\n", (unsigned)v.size()); } catch (const std::length_error&) { std::puts("assign(300): length_error OK"); }
  try { V v; v.append(big.begin(), big.end()); std::printf("append(300): size=%u -> NO length_error\n", (unsigned)v.size()); } catch (const std::length_error&) { std::puts("append(300): length_error OK"); }
  try { V v(1); v.insert(v.begin(), big.begin(), big.end()); std::printf("insert(300): size=%u -> NO length_error\n", (unsigned)v.size()); } catch (const std::length_error&) { std::puts("insert(300): length_error OK"); }
}
