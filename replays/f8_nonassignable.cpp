// F8 (C13): value-construction shortcut uses std::fill, which needs assignment.
// Expected today: ill-formed under g++ and clang++, every -std. std::vector<NA> v(3) is well-formed.
//   g++ -std=c++17 -DNDEBUG -I/repo/source/include -fsyntax-only f8_nonassignable.cpp
#include "gch/small_vector.hpp"
struct NA { int x; NA() = default; NA(const NA&) = default; NA& operator=(const NA&) = delete; };
static_assert(std::is_trivially_constructible<NA>::value, "");
int main() { gch::small_vector<NA, 2> v(3); v.resize(5); return (int)v.size(); }
